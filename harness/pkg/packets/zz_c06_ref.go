package packets

// C06 — gmqtt's codec against the independent decoder zzref.DecodePacket.

import (
	"bytes"

	"github.com/DrmagicE/gmqtt/zzref"
	"github.com/DrmagicE/gmqtt/zzrt"
)

type zzCanon struct{ f []zzref.Field }

func (c *zzCanon) num(k int, v uint64) { c.f = append(c.f, zzref.Field{Key: k, Num: v}) }
func (c *zzCanon) bin(k int, v []byte)  { c.f = append(c.f, zzref.Field{Key: k, Bytes: v, IsBin: true}) }
func (c *zzCanon) flag(k int, v bool) {
	if v {
		c.num(k, 1)
	} else {
		c.num(k, 0)
	}
}
func (c *zzCanon) optBin(k int, v []byte) {
	if v != nil {
		c.bin(k, v)
	}
}
func (c *zzCanon) optB(k int, v *byte) {
	if v != nil {
		c.num(k, uint64(*v))
	}
}
func (c *zzCanon) opt16(k int, v *uint16) {
	if v != nil {
		c.num(k, uint64(*v))
	}
}
func (c *zzCanon) opt32(k int, v *uint32) {
	if v != nil {
		c.num(k, uint64(*v))
	}
}

// props lists the properties in identifier order, like the reference decoder does.
func (c *zzCanon) props(p *Properties, base int) {
	if p == nil {
		return
	}
	c.optB(base+0x01, p.PayloadFormat)
	c.opt32(base+0x02, p.MessageExpiry)
	c.optBin(base+0x03, p.ContentType)
	c.optBin(base+0x08, p.ResponseTopic)
	c.optBin(base+0x09, p.CorrelationData)
	for _, id := range p.SubscriptionIdentifier {
		c.num(base+0x0b, uint64(id))
	}
	c.opt32(base+0x11, p.SessionExpiryInterval)
	c.optBin(base+0x12, p.AssignedClientID)
	c.opt16(base+0x13, p.ServerKeepAlive)
	c.optBin(base+0x15, p.AuthMethod)
	c.optBin(base+0x16, p.AuthData)
	c.optB(base+0x17, p.RequestProblemInfo)
	c.opt32(base+0x18, p.WillDelayInterval)
	c.optB(base+0x19, p.RequestResponseInfo)
	c.optBin(base+0x1a, p.ResponseInfo)
	c.optBin(base+0x1c, p.ServerReference)
	c.optBin(base+0x1f, p.ReasonString)
	c.opt16(base+0x21, p.ReceiveMaximum)
	c.opt16(base+0x22, p.TopicAliasMaximum)
	c.opt16(base+0x23, p.TopicAlias)
	c.optB(base+0x24, p.MaximumQoS)
	c.optB(base+0x25, p.RetainAvailable)
	for _, u := range p.User {
		c.bin(base+0x26, u.K)
		c.bin(zzref.KUserValue, u.V)
	}
	c.opt32(base+0x27, p.MaximumPacketSize)
	c.optB(base+0x28, p.WildcardSubAvailable)
	c.optB(base+0x29, p.SubIDAvailable)
	c.optB(base+0x2a, p.SharedSubAvailable)
}

// zzCanonOf maps a gmqtt packet value to the reference field list.
func zzCanonOf(p Packet, ver Version) []zzref.Field {
	c := &zzCanon{}
	switch q := p.(type) {
	case *Connect:
		c.num(zzref.KType, CONNECT)
		c.bin(zzref.KProtoName, q.ProtocolName)
		c.num(zzref.KProtoLevel, uint64(q.ProtocolLevel))
		c.flag(zzref.KCleanStart, q.CleanStart)
		c.flag(zzref.KWillFlag, q.WillFlag)
		c.num(zzref.KWillQoS, uint64(q.WillQos))
		c.flag(zzref.KWillRetain, q.WillRetain)
		c.flag(zzref.KPasswordFlag, q.PasswordFlag)
		c.flag(zzref.KUsernameFlag, q.UsernameFlag)
		c.num(zzref.KKeepAlive, uint64(q.KeepAlive))
		if q.Version == Version5 {
			c.props(q.Properties, zzref.KProp)
		}
		c.bin(zzref.KClientID, q.ClientID)
		if q.WillFlag {
			if q.Version == Version5 {
				c.props(q.WillProperties, zzref.KWillProp)
			}
			c.bin(zzref.KWillTopic, q.WillTopic)
			c.bin(zzref.KWillPayload, q.WillMsg)
		}
		if q.UsernameFlag {
			c.bin(zzref.KUsername, q.Username)
		}
		if q.PasswordFlag {
			c.bin(zzref.KPassword, q.Password)
		}
	case *Connack:
		c.num(zzref.KType, CONNACK)
		c.flag(zzref.KSessionPresent, q.SessionPresent)
		c.num(zzref.KCode, uint64(q.Code))
		if q.Version == Version5 {
			c.props(q.Properties, zzref.KProp)
		}
	case *Publish:
		c.num(zzref.KType, PUBLISH)
		c.flag(zzref.KDup, q.Dup)
		c.num(zzref.KQoS, uint64(q.Qos))
		c.flag(zzref.KRetain, q.Retain)
		c.bin(zzref.KTopic, q.TopicName)
		if q.Qos > 0 {
			c.num(zzref.KPacketID, uint64(q.PacketID))
		}
		if q.Version == Version5 {
			c.props(q.Properties, zzref.KProp)
		}
		c.bin(zzref.KPayload, q.Payload)
	case *Puback:
		c.num(zzref.KType, PUBACK)
		c.num(zzref.KPacketID, uint64(q.PacketID))
		if q.Version == Version5 {
			c.num(zzref.KCode, uint64(q.Code))
			c.props(q.Properties, zzref.KProp)
		}
	case *Pubrec:
		c.num(zzref.KType, PUBREC)
		c.num(zzref.KPacketID, uint64(q.PacketID))
		if q.Version == Version5 {
			c.num(zzref.KCode, uint64(q.Code))
			c.props(q.Properties, zzref.KProp)
		}
	case *Pubrel:
		c.num(zzref.KType, PUBREL)
		c.num(zzref.KPacketID, uint64(q.PacketID))
		if ver == Version5 { // the struct carries no version
			c.num(zzref.KCode, uint64(q.Code))
			c.props(q.Properties, zzref.KProp)
		}
	case *Pubcomp:
		c.num(zzref.KType, PUBCOMP)
		c.num(zzref.KPacketID, uint64(q.PacketID))
		if q.Version == Version5 {
			c.num(zzref.KCode, uint64(q.Code))
			c.props(q.Properties, zzref.KProp)
		}
	case *Subscribe:
		c.num(zzref.KType, SUBSCRIBE)
		c.num(zzref.KPacketID, uint64(q.PacketID))
		if q.Version == Version5 {
			c.props(q.Properties, zzref.KProp)
		}
		for _, t := range q.Topics {
			c.bin(zzref.KFilter, []byte(t.Name))
			c.num(zzref.KSubQoS, uint64(t.Qos))
			if q.Version == Version5 {
				c.flag(zzref.KSubNL, t.NoLocal)
				c.flag(zzref.KSubRAP, t.RetainAsPublished)
				c.num(zzref.KSubRH, uint64(t.RetainHandling))
			}
		}
	case *Suback:
		c.num(zzref.KType, SUBACK)
		c.num(zzref.KPacketID, uint64(q.PacketID))
		if q.Version == Version5 {
			c.props(q.Properties, zzref.KProp)
		}
		for _, code := range q.Payload {
			c.num(zzref.KAckCode, uint64(code))
		}
	case *Unsubscribe:
		c.num(zzref.KType, UNSUBSCRIBE)
		c.num(zzref.KPacketID, uint64(q.PacketID))
		if q.Version == Version5 {
			c.props(q.Properties, zzref.KProp)
		}
		for _, t := range q.Topics {
			c.bin(zzref.KUnsubFilter, []byte(t))
		}
	case *Unsuback:
		c.num(zzref.KType, UNSUBACK)
		c.num(zzref.KPacketID, uint64(q.PacketID))
		if q.Version == Version5 {
			c.props(q.Properties, zzref.KProp)
			for _, code := range q.Payload {
				c.num(zzref.KAckCode, uint64(code))
			}
		}
	case *Pingreq:
		c.num(zzref.KType, PINGREQ)
	case *Pingresp:
		c.num(zzref.KType, PINGRESP)
	case *Disconnect:
		c.num(zzref.KType, DISCONNECT)
		if q.Version == Version5 {
			c.num(zzref.KCode, uint64(q.Code))
			c.props(q.Properties, zzref.KProp)
		}
	case *Auth:
		c.num(zzref.KType, AUTH)
		c.num(zzref.KCode, uint64(q.Code))
		c.props(q.Properties, zzref.KProp)
	}
	return c.f
}

// zzFieldsEq: same keys, numbers and byte strings, in the same order.
func zzFieldsEq(a, b []zzref.Field) bool {
	if len(a) != len(b) {
		return false
	}
	ok := true
	for i := range a {
		if a[i].Key != b[i].Key || len(a[i].Bytes) != len(b[i].Bytes) {
			return false
		}
		ok = zzrt.And(ok, a[i].Num == b[i].Num)
		if len(a[i].Bytes) > 0 {
			ok = zzrt.And(ok, zzrt.BytesEq(a[i].Bytes, b[i].Bytes))
		}
	}
	return ok
}

func zzRefVersion(v Version) byte {
	switch v {
	case Version5:
		return 5
	case Version31:
		return 3
	}
	return 4
}

// ZZ_C06_RefBytes: N symbolic bytes behind the type nibble through both decoders.
// gmqtt accepts => the bytes parse under the reference decoder, to the same fields and
// the same length; the reference decoder calls the packet well-formed => gmqtt accepts.
func ZZ_C06_RefBytes() {
	N := zzrt.Param("N")
	typ := byte(zzrt.Param("T"))
	if typ == 0 {
		typ = byte(1 + zzrt.Choice(15))
	}
	ver := []Version{Version311, Version5, Version31}[zzrt.Choice(zzrt.Param("VERS"))]
	flags := zzrt.Byte()
	zzrt.Assume(flags < 16)
	n := zzrt.Choice(N + 1)
	bs := append([]byte{typ<<4 | flags}, zzrt.Bytes(n)...)
	src := bytes.NewReader(bs)
	rd := NewReader(src)
	rd.SetVersion(ver)
	zzrt.Observe("type", typ)
	zzrt.Observe("version", ver)
	zzrt.Observe("in", bs)
	p, err := rd.ReadPacket()
	consumed := len(bs) - src.Len() - rd.bufr.Buffered()
	want, used, verdict := zzref.DecodePacket(bs, zzRefVersion(ver))
	zzrt.Observe("accepted", err == nil)
	zzrt.Observe("verdict", verdict)
	if err != nil {
		zzrt.Assert(verdict != zzref.WellFormed, "well-formed-packet-accepted")
		zzrt.Cover("ref-rejected")
		return
	}
	zzrt.Assert(verdict != zzref.Malformed, "accepted-bytes-parse-under-the-independent-decoder")
	if verdict == zzref.Malformed {
		return
	}
	zzrt.Assert(used == consumed, "both-decoders-consume-the-same-bytes")
	zzrt.Assert(zzFieldsEq(zzCanonOf(p, ver), want), "both-decoders-read-the-same-field-values")
	if verdict == zzref.Invalid {
		zzrt.Cover("lenient") // accepted although a MUST modelled by the reference is broken: outside the statement
	}
	zzrt.Cover("ref-accepted")
}
