package packets

// C06 — well-formed packet VALUES through gmqtt's encoder, read back by the independent
// decoder (and by gmqtt's own decoder).

import (
	"bytes"

	"github.com/DrmagicE/gmqtt/pkg/codes"
	"github.com/DrmagicE/gmqtt/zzref"
	"github.com/DrmagicE/gmqtt/zzrt"
)

func zzText() []byte {
	switch zzrt.Choice(2) {
	case 0:
		return []byte{}
	}
	return []byte("xy")
}

func zzBin(max int) []byte { return zzrt.Bytes(zzrt.Choice(max + 1)) }

// zzSetProp sets property id on p to an arbitrary legal value.
func zzSetProp(p *Properties, id uint32) {
	b := func() *byte {
		v := zzrt.Byte()
		zzrt.Assume(v <= 1)
		return &v
	}
	u16 := func(nonzero bool) *uint16 {
		v := zzrt.Uint16()
		if nonzero {
			zzrt.Assume(v != 0)
		}
		return &v
	}
	u32 := func(nonzero bool) *uint32 {
		v := zzrt.Uint32()
		if nonzero {
			zzrt.Assume(v != 0)
		}
		return &v
	}
	switch id {
	case 0x01:
		p.PayloadFormat = b()
	case 0x02:
		p.MessageExpiry = u32(false)
	case 0x03:
		p.ContentType = zzText()
	case 0x08:
		p.ResponseTopic = []byte("r/t")
	case 0x09:
		p.CorrelationData = zzBin(2)
		if p.CorrelationData == nil {
			p.CorrelationData = []byte{}
		}
	case 0x0b:
		v := zzrt.Uint32()
		zzrt.Assume(v >= 1 && v < 1<<28)
		p.SubscriptionIdentifier = append(p.SubscriptionIdentifier, v)
	case 0x11:
		p.SessionExpiryInterval = u32(false)
	case 0x12:
		p.AssignedClientID = zzText()
	case 0x13:
		p.ServerKeepAlive = u16(false)
	case 0x15:
		p.AuthMethod = zzText()
	case 0x16:
		p.AuthData = zzBin(2)
		if p.AuthData == nil {
			p.AuthData = []byte{}
		}
		if p.AuthMethod == nil {
			p.AuthMethod = []byte("m") // data without a method is a protocol error
		}
	case 0x17:
		p.RequestProblemInfo = b()
	case 0x18:
		p.WillDelayInterval = u32(false)
	case 0x19:
		p.RequestResponseInfo = b()
	case 0x1a:
		p.ResponseInfo = zzText()
	case 0x1c:
		p.ServerReference = zzText()
	case 0x1f:
		p.ReasonString = zzText()
	case 0x21:
		p.ReceiveMaximum = u16(true)
	case 0x22:
		p.TopicAliasMaximum = u16(false)
	case 0x23:
		p.TopicAlias = u16(true)
	case 0x24:
		p.MaximumQoS = b()
	case 0x25:
		p.RetainAvailable = b()
	case 0x26:
		p.User = append(p.User, UserProperty{K: zzText(), V: zzText()})
	case 0x27:
		p.MaximumPacketSize = u32(true)
	case 0x28:
		p.WildcardSubAvailable = b()
	case 0x29:
		p.SubIDAvailable = b()
	case 0x2a:
		p.SharedSubAvailable = b()
	}
}

// zzGenProps: a property block for context ctx (packet type, 0 = will) holding up to P
// different properties chosen from those MQTT 5.0 table 2-4 allows there (repeatable
// ones possibly twice).
func zzGenProps(ctx byte, P int) *Properties {
	var allowed []uint32
	for id := uint32(1); id < 0x30; id++ {
		if zzref.PropKind(id) != 0 && zzref.PropAllowed(id, ctx) {
			allowed = append(allowed, id)
		}
	}
	p := &Properties{}
	lo := 0
	for k := 0; k < P; k++ {
		i := lo + zzrt.Choice(len(allowed)-lo+1)
		if i >= len(allowed) {
			break
		}
		id := allowed[i]
		zzSetProp(p, id)
		repeatable := id == 0x26 || (id == 0x0b && ctx == PUBLISH)
		if repeatable {
			lo = i
		} else {
			lo = i + 1
		}
	}
	return p
}

func zzGenPacket(typ byte, ver Version, P, T int) Packet {
	v5 := ver == Version5
	props := func(ctx byte) *Properties {
		if !v5 {
			return nil
		}
		return zzGenProps(ctx, P)
	}
	pid := func() PacketID {
		v := zzrt.Uint16()
		zzrt.Assume(v != 0)
		return v
	}
	switch typ {
	case CONNECT:
		c := &Connect{Version: ver, ProtocolName: []byte("MQTT"), ProtocolLevel: 4, ClientID: []byte("c"), KeepAlive: zzrt.Uint16(), CleanStart: zzrt.Bool()}
		switch ver {
		case Version5:
			c.ProtocolLevel = 5
		case Version31:
			c.ProtocolName, c.ProtocolLevel = []byte("MQIsdp"), 3
		}
		c.Properties = props(CONNECT)
		if zzrt.Choice(2) == 1 {
			c.WillFlag = true
			c.WillQos = zzrt.Byte()
			zzrt.Assume(c.WillQos <= 2)
			c.WillRetain = zzrt.Bool()
			c.WillTopic = []byte("w")
			c.WillMsg = zzBin(1)
			if v5 {
				// quick tier: will properties only next to an empty CONNECT property block (sum, not product)
				wp := P
				if zzrt.Param("PROD") == 0 && len(zzCanonOf(&Connack{Version: Version5, Properties: c.Properties}, ver)) > 3 {
					wp = 0
				}
				c.WillProperties = zzGenProps(0, wp)
			}
		}
		switch zzrt.Choice(3) {
		case 1:
			c.UsernameFlag, c.Username = true, []byte("u")
		case 2:
			c.UsernameFlag, c.Username = true, []byte("u")
			c.PasswordFlag, c.Password = true, zzBin(1)
		}
		return c
	case CONNACK:
		c := &Connack{Version: ver, Code: zzrt.Byte(), SessionPresent: zzrt.Bool(), Properties: props(CONNACK)}
		zzrt.Assume(zzrt.Or(c.Code == 0, !c.SessionPresent))
		if !v5 {
			zzrt.Assume(c.Code <= 5)
		}
		return c
	case PUBLISH:
		p := &Publish{Version: ver, Qos: uint8(zzrt.Choice(3)), Retain: zzrt.Bool(), TopicName: []byte("t"), Payload: zzBin(2), Properties: props(PUBLISH)}
		if p.Qos > 0 {
			p.Dup = zzrt.Bool()
			p.PacketID = pid()
		}
		return p
	case PUBACK:
		q := &Puback{Version: ver, PacketID: pid()}
		if v5 {
			q.Code = zzrt.Byte()
			if zzrt.Choice(2) == 1 {
				q.Properties = props(PUBACK)
			}
		}
		return q
	case PUBREC:
		q := &Pubrec{Version: ver, PacketID: pid()}
		if v5 {
			q.Code = zzrt.Byte()
			if zzrt.Choice(2) == 1 {
				q.Properties = props(PUBREC)
			}
		}
		return q
	case PUBREL:
		q := &Pubrel{PacketID: pid()}
		if v5 {
			q.Code = zzrt.Byte()
			if zzrt.Choice(2) == 1 {
				q.Properties = props(PUBREL)
			}
		}
		return q
	case PUBCOMP:
		q := &Pubcomp{Version: ver, PacketID: pid()}
		if v5 {
			q.Code = zzrt.Byte()
			if zzrt.Choice(2) == 1 {
				q.Properties = props(PUBCOMP)
			}
		}
		return q
	case SUBSCRIBE:
		s := &Subscribe{Version: ver, PacketID: pid(), Properties: props(SUBSCRIBE)}
		n := 1 + zzrt.Choice(T)
		names := []string{"a", "b/+", "#"}
		for i := 0; i < n; i++ {
			t := Topic{Name: names[i%3]}
			t.Qos = zzrt.Byte()
			zzrt.Assume(t.Qos <= 2)
			if v5 {
				t.NoLocal, t.RetainAsPublished = zzrt.Bool(), zzrt.Bool()
				t.RetainHandling = zzrt.Byte()
				zzrt.Assume(t.RetainHandling <= 2)
			}
			s.Topics = append(s.Topics, t)
		}
		return s
	case SUBACK:
		s := &Suback{Version: ver, PacketID: pid(), Properties: props(SUBACK)}
		n := 1 + zzrt.Choice(T)
		for i := 0; i < n; i++ {
			s.Payload = append(s.Payload, codes.Code(zzrt.Byte()))
		}
		return s
	case UNSUBSCRIBE:
		s := &Unsubscribe{Version: ver, PacketID: pid(), Properties: props(UNSUBSCRIBE)}
		n := 1 + zzrt.Choice(T)
		names := []string{"a", "b/+", "#"}
		for i := 0; i < n; i++ {
			s.Topics = append(s.Topics, names[i%3])
		}
		return s
	case UNSUBACK:
		s := &Unsuback{Version: ver, PacketID: pid(), Properties: props(UNSUBACK)}
		if v5 {
			n := 1 + zzrt.Choice(T)
			for i := 0; i < n; i++ {
				s.Payload = append(s.Payload, codes.Code(zzrt.Byte()))
			}
		}
		return s
	case PINGREQ:
		return &Pingreq{}
	case PINGRESP:
		return &Pingresp{}
	case DISCONNECT:
		d := &Disconnect{Version: ver}
		if v5 {
			d.Code = zzrt.Byte()
			if zzrt.Choice(2) == 1 {
				d.Properties = props(DISCONNECT)
			}
		}
		return d
	case AUTH:
		a := &Auth{Code: zzrt.Byte()}
		if zzrt.Choice(2) == 1 {
			a.Properties = props(AUTH)
		}
		return a
	}
	return nil
}

// ZZ_C06_Struct: a structurally valid value of any packet type (every numeric field
// symbolic) -> Pack -> independent decoder and gmqtt's decoder.
func ZZ_C06_Struct() {
	P, T := zzrt.Param("P"), zzrt.Param("T")
	typ := byte(zzrt.Param("TYPE"))
	if typ == 0 {
		typ = byte(1 + zzrt.Choice(15))
	}
	ver := []Version{Version311, Version5, Version31}[zzrt.Choice(zzrt.Param("VERS"))]
	if typ == AUTH && ver != Version5 {
		return
	}
	p := zzGenPacket(typ, ver, P, T)
	want := zzCanonOf(p, ver)
	zzrt.Observe("type", typ)
	zzrt.Observe("version", ver)
	pubsubid := 0
	if q, isPub := p.(*Publish); isPub && q.Properties != nil {
		pubsubid = len(q.Properties.SubscriptionIdentifier)
	}
	zzrt.Observe("pubsubid", pubsubid)
	var buf bytes.Buffer
	zzrt.Assert(p.Pack(&buf) == nil, "well-formed-value-encodes")
	out := buf.Bytes()
	zzrt.Observe("out", out)
	zzrt.Assert(uint32(len(out)) == TotalBytes(p), "reported-size-equals-encoded-length")
	got, used, verdict := zzref.DecodePacket(out, zzRefVersion(ver))
	zzrt.Observe("verdict", verdict)
	zzrt.Assert(verdict >= zzref.Structural, "encoding-is-valid-for-the-independent-decoder")
	if verdict >= zzref.Invalid {
		zzrt.Assert(used == len(out), "encoding-is-one-whole-packet")
		zzrt.Assert(zzFieldsEq(got, want), "independent-decoder-reads-back-the-field-values")
	}
	src := bytes.NewReader(out)
	rd := NewReader(src)
	rd.SetVersion(ver)
	p2, err := rd.ReadPacket()
	zzrt.Assert(err == nil && p2 != nil, "own-decoder-accepts-the-encoding")
	if err == nil {
		zzrt.Assert(src.Len()+rd.bufr.Buffered() == 0, "own-decoder-consumes-the-whole-encoding")
		zzrt.Assert(zzFieldsEq(zzCanonOf(p2, ver), want), "own-decoder-reads-back-the-field-values")
	}
	zzrt.Cover("struct-done")
}

// ZZ_C06_LengthBoundary: packets whose property length and remaining length sit on and
// around the variable-byte-integer boundaries (127|128, 16383|16384): a PUBLISH with a
// long user property, or a CONNECT whose will carries a long content type.  Same oracle
// as ZZ_C06_Struct (size, independent decoder, own decoder).
func ZZ_C06_LengthBoundary() {
	bases := []int{110, 16366}
	L := bases[zzrt.Choice(zzrt.Param("BASES"))] + zzrt.Choice(zzrt.Param("W"))
	val := make([]byte, L)
	for i := range val {
		val[i] = 'a'
	}
	ver := Version5
	var p Packet
	kind := zzrt.Choice(2)
	switch kind {
	case 0:
		p = &Publish{Version: ver, FixHeader: &FixHeader{PacketType: PUBLISH}, Qos: 1, PacketID: zzrt.Uint16(), TopicName: []byte("t"), Payload: []byte{1},
			Properties: &Properties{User: []UserProperty{{K: []byte("k"), V: val}}}}
		zzrt.Assume(p.(*Publish).PacketID != 0)
		p.(*Publish).FixHeader.Flags = 2
	default:
		p = &Connect{Version: ver, FixHeader: &FixHeader{PacketType: CONNECT}, ProtocolName: []byte("MQTT"), ProtocolLevel: 5, ClientID: []byte("c"),
			CleanStart: true, WillFlag: true, WillQos: 1, WillTopic: []byte("w"), WillMsg: []byte{2}, KeepAlive: zzrt.Uint16(),
			Properties: &Properties{}, WillProperties: &Properties{ContentType: val}}
	}
	zzrt.Observe("len", L)
	zzrt.Observe("kind", kind)
	want := zzCanonOf(p, ver)
	var buf bytes.Buffer
	zzrt.Assert(p.Pack(&buf) == nil, "well-formed-value-encodes")
	out := buf.Bytes()
	zzrt.Observe("outlen", len(out))
	zzrt.Assert(uint32(len(out)) == TotalBytes(p), "reported-size-equals-encoded-length")
	got, used, verdict := zzref.DecodePacket(out, zzRefVersion(ver))
	zzrt.Assert(verdict >= zzref.Invalid, "encoding-is-valid-for-the-independent-decoder")
	if verdict >= zzref.Invalid {
		zzrt.Assert(used == len(out), "encoding-is-one-whole-packet")
		zzrt.Assert(zzFieldsEq(got, want), "independent-decoder-reads-back-the-field-values")
	}
	src := bytes.NewReader(out)
	rd := NewReader(src)
	rd.SetVersion(ver)
	p2, err := rd.ReadPacket()
	zzrt.Assert(err == nil && p2 != nil, "own-decoder-accepts-the-encoding")
	if err == nil {
		zzrt.Assert(src.Len()+rd.bufr.Buffered() == 0, "own-decoder-consumes-the-whole-encoding")
		zzrt.Assert(zzFieldsEq(zzCanonOf(p2, ver), want), "own-decoder-reads-back-the-field-values")
	}
	zzrt.Cover("boundary-done")
}
