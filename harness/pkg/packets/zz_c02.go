package packets

import (
	"github.com/DrmagicE/gmqtt/zzref"
	"github.com/DrmagicE/gmqtt/zzrt"
)

// ZZ_C02_TopicMatch: the exported TopicMatch helper decides the MQTT 4.7 relation for
// every valid (topic name, filter) byte string of the given lengths.
func ZZ_C02_TopicMatch() {
	N := zzrt.Param("N")
	n := zzrt.Concrete(zzrt.IntRange(1, N))
	m := zzrt.Concrete(zzrt.IntRange(1, N))
	topic := zzrt.Bytes(n)
	filter := zzrt.Bytes(m)
	zzrt.Assume(zzref.ValidName(topic))
	zzrt.Assume(zzref.ValidFilter(filter))
	want := zzref.Match(topic, filter)
	got := TopicMatch(topic, filter)
	zzrt.Observe("topic", topic)
	zzrt.Observe("filter", filter)
	zzrt.Observe("got", got)
	zzrt.Assert(got == want, "topicmatch-equals-mqtt-4.7")
	if zzrt.ConcreteBool(got) {
		zzrt.Cover("match")
	} else {
		zzrt.Cover("nomatch")
	}
}

// ZZ_C02_RefSelfTest: the two reference formulations (byte DP and level-wise) agree on
// concrete strings over the structural alphabet — guards the oracle itself.
func ZZ_C02_RefSelfTest() {
	alpha := []byte{'a', '/', '+', '#', '$'}
	n := zzrt.Choice(3) + 1
	m := zzrt.Choice(3) + 1
	t := make([]byte, n)
	f := make([]byte, m)
	for i := range t {
		t[i] = alpha[zzrt.Choice(len(alpha))]
	}
	for i := range f {
		f[i] = alpha[zzrt.Choice(len(alpha))]
	}
	if !zzref.ValidName(t) || !zzref.ValidFilter(f) {
		return
	}
	zzrt.Assert(zzref.Match(t, f) == zzref.MatchLevels(string(t), string(f)), "reference-formulations-agree")
	zzrt.Cover("selftest")
}
