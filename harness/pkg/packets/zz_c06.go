package packets

// C06 — the packet codec is total, bounded and round-trips.

import (
	"bytes"

	"github.com/DrmagicE/gmqtt/zzref"
	"github.com/DrmagicE/gmqtt/zzrt"
)

// ZZ_C06_Varint: variable byte integer decoding (EncodeRemainLength reads it) and
// encoding (DecodeRemainLength writes it) against MQTT 1.5.5.
func ZZ_C06_Varint() {
	n := zzrt.Choice(6) + 1
	bs := zzrt.Bytes(n)
	r := bytes.NewReader(bs)
	v, err := EncodeRemainLength(r)
	consumed := n - r.Len()
	zzrt.Observe("bytes", bs)
	zzrt.Observe("ok", err == nil)
	// reference: the terminator is the first byte with bit 7 clear; at most 4 bytes
	k := -1
	for i := 0; i < n && i < 4 && k < 0; i++ {
		if zzrt.ConcreteBool(bs[i]&128 == 0) {
			k = i
		}
	}
	// [MQTT-1.5.5-1]: the minimum number of bytes must be used (no trailing zero byte)
	if k > 0 && zzrt.ConcreteBool(bs[k] == 0) {
		zzrt.Assert(err != nil, "non-minimal-variable-byte-integer-rejected")
		zzrt.Cover("rejected")
		return
	}
	if k >= 0 {
		want := 0
		for i := 0; i <= k; i++ {
			want |= int(bs[i]&127) << (7 * uint(i))
		}
		zzrt.Assert(err == nil, "well-formed-variable-byte-integer-accepted")
		zzrt.Assert(v == want, "variable-byte-integer-value")
		zzrt.Assert(consumed == k+1, "reads-exactly-the-encoding")
		// encoding the value gives the canonical form, which decodes to the value
		enc, e2 := DecodeRemainLength(v)
		zzrt.Assert(e2 == nil && len(enc) >= 1 && len(enc) <= 4, "encoder-accepts-the-value")
		v2, e3 := EncodeRemainLength(bytes.NewReader(enc))
		zzrt.Assert(e3 == nil && v2 == v, "encode-decode-round-trip")
		zzrt.Cover("accepted")
	} else {
		// unterminated within the supplied bytes, or longer than 4 bytes
		zzrt.Assert(err != nil, "truncated-or-overlong-variable-byte-integer-rejected")
		zzrt.Assert(consumed <= 4 || consumed <= n, "does-not-read-on-forever")
		zzrt.Cover("rejected")
	}
}

// ZZ_C06_VarintEncode: every value below 2^28 is encoded canonically and decodes back.
func ZZ_C06_VarintEncode() {
	v := zzrt.IntRange(0, 300000000)
	enc, err := DecodeRemainLength(v)
	if zzrt.ConcreteBool(v >= 268435456) {
		zzrt.Assert(err != nil, "value-above-2^28-rejected")
		return
	}
	zzrt.Assert(err == nil, "value-below-2^28-encoded")
	want := 1
	if zzrt.ConcreteBool(v >= 128) {
		want = 2
	}
	if zzrt.ConcreteBool(v >= 16384) {
		want = 3
	}
	if zzrt.ConcreteBool(v >= 2097152) {
		want = 4
	}
	zzrt.Assert(len(enc) == want, "canonical-length")
	v2, e2 := EncodeRemainLength(bytes.NewReader(enc))
	zzrt.Assert(e2 == nil && v2 == v, "decodes-back")
	zzrt.Cover("encoded")
}

// ZZ_C06_ValidStrings: the UTF-8 / topic validators against MQTT 1.5.4 and 4.7.
func ZZ_C06_ValidStrings() {
	n := zzrt.Choice(zzrt.Param("N") + 1)
	b := zzrt.Bytes(n)
	zzrt.Observe("b", b)
	mustAcc := zzref.MustAcceptString(b)
	mustRej := zzref.MustRejectString(b)
	switch zzrt.Choice(4) {
	case 0:
		got := ValidUTF8(b)
		zzrt.Observe("got", got)
		zzrt.Assert(zzrt.Implies(mustAcc, got), "well-formed-mqtt-string-accepted")
		zzrt.Assert(zzrt.Implies(mustRej, !got), "ill-formed-or-nul-string-rejected")
		zzrt.Cover("utf8")
	case 1:
		got := ValidTopicName(true, b)
		zzrt.Observe("got", got)
		// (the length rule, at least one character, is enforced by the callers; here n >= 1)
		if n >= 1 {
			zzrt.Assert(zzrt.Implies(zzrt.And(mustAcc, zzref.ValidName(b)), got), "valid-topic-name-accepted")
			// (NUL and control characters are the string layer's business: ValidUTF8 runs first in the decoder)
			zzrt.Assert(zzrt.Implies(zzrt.And(mustAcc, zzrt.Not(zzref.ValidName(b))), !got), "topic-name-with-wildcard-rejected")
			zzrt.Assert(zzrt.Implies(zzrt.Not(zzref.WellFormedUTF8(b)), !got), "ill-formed-topic-name-rejected")
		}
		zzrt.Cover("name")
	case 2:
		got := ValidTopicFilter(true, b)
		zzrt.Observe("got", got)
		if n >= 1 {
			zzrt.Assert(zzrt.Implies(zzrt.And(mustAcc, zzref.ValidFilter(b)), got), "valid-topic-filter-accepted")
			zzrt.Assert(zzrt.Implies(zzrt.And(mustAcc, zzrt.Not(zzref.ValidFilter(b))), !got), "misplaced-wildcard-filter-rejected")
			zzrt.Assert(zzrt.Implies(zzrt.Not(zzref.WellFormedUTF8(b)), !got), "ill-formed-topic-filter-rejected")
		} else {
			zzrt.Assert(!got, "empty-topic-filter-rejected")
		}
		zzrt.Cover("filter")
	case 3:
		got := ValidV5Topic(b)
		zzrt.Observe("got", got)
		if n >= 1 {
			shared := zzref.HasSharePrefix(b)
			valid := zzrt.Or(zzrt.And(zzrt.Not(shared), zzref.ValidFilter(b)), zzrt.And(shared, zzref.ValidSharedFilter(b)))
			zzrt.Assert(zzrt.Implies(zzrt.And(mustAcc, valid), got), "valid-v5-filter-accepted")
			zzrt.Assert(zzrt.Implies(zzrt.And(mustAcc, zzrt.Not(valid)), !got), "invalid-v5-filter-rejected")
		} else {
			zzrt.Assert(!got, "empty-topic-filter-rejected")
		}
		zzrt.Cover("v5filter")
	}
}

func zzAllEqU64(a, b []uint64) bool {
	if len(a) != len(b) {
		return false
	}
	ok := true
	for i := range a {
		ok = zzrt.And(ok, a[i] == b[i])
	}
	return ok
}

// ZZ_C06_Packet: N symbolic bytes behind the fixed-header type nibble through the real
// ReadPacket (bufio + bytes.Reader): never panics; a returned packet consumed exactly
// its encoded size (= TotalBytes), re-encodes, and decodes again to an equal packet.
func ZZ_C06_Packet() {
	N := zzrt.Param("N")
	typ := byte(zzrt.Param("T"))
	if typ == 0 {
		typ = byte(1 + zzrt.Choice(15))
	}
	ver := []Version{Version311, Version5, Version31}[zzrt.Choice(zzrt.Param("VERS"))]
	flags := zzrt.Byte()
	zzrt.Assume(flags < 16)
	n := zzrt.Choice(N + 1)
	bs := append([]byte{typ<<4 | flags}, zzrt.Bytes(n)...)
	src := bytes.NewReader(bs)
	rd := NewReader(src)
	rd.SetVersion(ver)
	zzrt.Observe("type", typ)
	zzrt.Observe("version", ver)
	zzrt.Observe("in", bs)
	zzrt.AllocMark()
	p, err := rd.ReadPacket()
	// memory in proportion to the bytes actually supplied (64 KiB + 16 per byte allowed)
	zzrt.Assert(zzrt.AllocWithin(65536+16*len(bs)), "allocation-in-proportion-to-supplied-bytes")
	consumed := len(bs) - src.Len() - rd.bufr.Buffered()
	zzrt.Observe("accepted", err == nil)
	if err != nil {
		zzrt.Assert(p == nil, "error-returns-no-packet")
		zzrt.Cover("rejected")
		return
	}
	zzrt.Assert(p != nil, "success-returns-a-packet")
	if typ == PUBREL && IsVersion3X(ver) {
		zzrt.Assert(consumed == 4, "v3-pubrel-is-exactly-the-packet-identifier")
	}
	zzrt.Assert(uint32(consumed) == TotalBytes(p), "consumed-exactly-the-declared-packet-size")
	// v5 acknowledgements / DISCONNECT / AUTH without properties have up to three legal
	// encodings (reason code and property length present or omitted); the encoder emits
	// one of them, so the remaining-length bookkeeping may legitimately differ there
	shortForm := false
	code := byte(0)
	emptyProps := func(pp *Properties) bool { return pp == nil || len(zzrt.Flatten(*pp)) == len(zzrt.Flatten(Properties{})) && zzAllEqU64(zzrt.Flatten(*pp), zzrt.Flatten(Properties{})) }
	switch q := p.(type) {
	case *Puback:
		shortForm, code = q.Version == Version5 && emptyProps(q.Properties), q.Code
	case *Pubrec:
		shortForm, code = q.Version == Version5 && emptyProps(q.Properties), q.Code
	case *Pubrel:
		shortForm, code = emptyProps(q.Properties), q.Code
	case *Pubcomp:
		shortForm, code = q.Version == Version5 && emptyProps(q.Properties), q.Code
	case *Disconnect:
		shortForm, code = q.Version == Version5 && emptyProps(q.Properties), q.Code
	case *Auth:
		shortForm, code = emptyProps(q.Properties), q.Code
	}
	saved := zzFixHeaderOf(p).RemainLength
	if shortForm {
		zzFixHeaderOf(p).RemainLength = 0
	}
	before := zzrt.Flatten(p)
	zzFixHeaderOf(p).RemainLength = saved
	var buf bytes.Buffer
	zzrt.Assert(p.Pack(&buf) == nil, "accepted-packet-re-encodes")
	out := buf.Bytes()
	zzrt.Observe("out", out)
	src2 := bytes.NewReader(out)
	rd2 := NewReader(src2)
	rd2.SetVersion(ver)
	p2, err2 := rd2.ReadPacket()
	zzrt.Assert(err2 == nil && p2 != nil, "re-encoded-bytes-decode")
	if err2 == nil {
		zzrt.Assert(src2.Len()+rd2.bufr.Buffered() == 0, "re-encoding-is-one-whole-packet")
		zzrt.Assert(uint32(len(out)) == TotalBytes(p2), "reported-size-equals-encoded-length")
		// the input was one of the legal encodings of the returned value: same length as the
		// canonical re-encoding, or one of the short forms
		sameLen := consumed == len(out)
		if shortForm {
			sameLen = sameLen || consumed == len(out)-1 || consumed == len(out)+1 || (code == 0 && (consumed == len(out)-2 || consumed == len(out)+2))
		}
		zzrt.Assert(sameLen, "accepted-input-is-an-encoding-of-the-returned-packet")
		if shortForm {
			zzFixHeaderOf(p2).RemainLength = 0
		}
		zzrt.Assert(zzAllEqU64(zzrt.Flatten(p2), before), "round-trip-gives-an-equal-packet")
	}
	zzrt.Cover("accepted")
}

func zzFixHeaderOf(p Packet) *FixHeader {
	switch q := p.(type) {
	case *Auth:
		return q.FixHeader
	case *Connect:
		return q.FixHeader
	case *Connack:
		return q.FixHeader
	case *Disconnect:
		return q.FixHeader
	case *Pingreq:
		return q.FixHeader
	case *Pingresp:
		return q.FixHeader
	case *Puback:
		return q.FixHeader
	case *Pubcomp:
		return q.FixHeader
	case *Publish:
		return q.FixHeader
	case *Pubrec:
		return q.FixHeader
	case *Pubrel:
		return q.FixHeader
	case *Suback:
		return q.FixHeader
	case *Subscribe:
		return q.FixHeader
	case *Unsuback:
		return q.FixHeader
	case *Unsubscribe:
		return q.FixHeader
	}
	return &FixHeader{}
}
