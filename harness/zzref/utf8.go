package zzref

import "github.com/DrmagicE/gmqtt/zzrt"

func in(b, lo, hi byte) bool { return zzrt.And(b >= lo, b <= hi) }

// WellFormedUTF8: RFC 3629 / Unicode table 3-7 (no surrogates, no overlongs, max
// U+10FFFF) as a dynamic programme over byte positions, without data-dependent
// control flow.
func WellFormedUTF8(b []byte) bool {
	n := len(b)
	ok := make([]bool, n+5)
	ok[n] = true
	for i := n - 1; i >= 0; i-- {
		at := func(k int) byte {
			if i+k < n {
				return b[i+k]
			}
			return 0
		}
		has := func(k int) bool { return i+k <= n }
		cont := func(k int) bool { return in(at(k), 0x80, 0xBF) }
		r := zzrt.And(b[i] < 0x80, ok[i+1])
		if has(2) {
			r = zzrt.Or(r, zzrt.And(zzrt.And(in(b[i], 0xC2, 0xDF), cont(1)), ok[i+2]))
		}
		if has(3) {
			second := zzrt.Or(zzrt.And(b[i] == 0xE0, in(at(1), 0xA0, 0xBF)),
				zzrt.Or(zzrt.And(zzrt.Or(in(b[i], 0xE1, 0xEC), in(b[i], 0xEE, 0xEF)), cont(1)),
					zzrt.And(b[i] == 0xED, in(at(1), 0x80, 0x9F))))
			r = zzrt.Or(r, zzrt.And(zzrt.And(second, cont(2)), ok[i+3]))
		}
		if has(4) {
			second := zzrt.Or(zzrt.And(b[i] == 0xF0, in(at(1), 0x90, 0xBF)),
				zzrt.Or(zzrt.And(in(b[i], 0xF1, 0xF3), cont(1)),
					zzrt.And(b[i] == 0xF4, in(at(1), 0x80, 0x8F))))
			r = zzrt.Or(r, zzrt.And(zzrt.And(zzrt.And(second, cont(2)), cont(3)), ok[i+4]))
		}
		ok[i] = r
	}
	return ok[0]
}

// HasNUL: U+0000 MUST NOT appear in an MQTT UTF-8 string [MQTT-1.5.4-2].
func HasNUL(b []byte) bool {
	r := false
	for i := range b {
		r = zzrt.Or(r, b[i] == 0)
	}
	return r
}

// HasDiscouraged: code points an MQTT UTF-8 string SHOULD NOT contain (C0/C1 control
// characters U+0001..U+001F, U+007F..U+009F, and non-characters).  A decoder may reject
// or accept them; the oracle is three-valued there.  (Only meaningful on well-formed input.)
func HasDiscouraged(b []byte) bool {
	r := false
	n := len(b)
	for i := range b {
		r = zzrt.Or(r, zzrt.Or(in(b[i], 0x01, 0x1F), b[i] == 0x7F))
		if i+1 < n {
			r = zzrt.Or(r, zzrt.And(b[i] == 0xC2, in(b[i+1], 0x80, 0x9F))) // U+0080..U+009F
		}
		if i+2 < n {
			// U+FDD0..U+FDEF: EF B7 90..AF ; U+FFFE/U+FFFF: EF BF BE/BF
			r = zzrt.Or(r, zzrt.And(zzrt.And(b[i] == 0xEF, b[i+1] == 0xB7), in(b[i+2], 0x90, 0xAF)))
			r = zzrt.Or(r, zzrt.And(zzrt.And(b[i] == 0xEF, b[i+1] == 0xBF), in(b[i+2], 0xBE, 0xBF)))
		}
		if i+3 < n {
			// plane-end non-characters U+nFFFE/U+nFFFF: F0..F4 x(F) BF BE/BF
			r = zzrt.Or(r, zzrt.And(zzrt.And(in(b[i], 0xF0, 0xF4), zzrt.And(b[i+1]&0x0F == 0x0F, b[i+2] == 0xBF)), in(b[i+3], 0xBE, 0xBF)))
		}
	}
	return r
}

// MustAcceptString / MustRejectString: the two definite regions for an MQTT UTF-8 string.
func MustAcceptString(b []byte) bool {
	return zzrt.And(WellFormedUTF8(b), zzrt.And(zzrt.Not(HasNUL(b)), zzrt.Not(HasDiscouraged(b))))
}
func MustRejectString(b []byte) bool {
	return zzrt.Or(zzrt.Not(WellFormedUTF8(b)), HasNUL(b))
}

// ValidSharedFilter: MQTT 4.8.2: $share/{ShareName}/{filter}; ShareName at least one
// character and without '/', '+', '#'; the rest a valid topic filter.
func ValidSharedFilter(f []byte) bool {
	prefix := "$share/"
	n := len(f)
	if n < len(prefix)+3 {
		return false
	}
	ok := true
	for i := 0; i < len(prefix); i++ {
		ok = zzrt.And(ok, f[i] == prefix[i])
	}
	// position of the first '/' after the prefix = end of the share name
	res := false
	nameOK := true
	for k := len(prefix); k < n-1; k++ {
		isSlash := f[k] == '/'
		if k > len(prefix) {
			res = zzrt.Or(res, zzrt.And(zzrt.And(nameOK, isSlash), ValidFilter(f[k+1:])))
		}
		nameOK = zzrt.And(nameOK, zzrt.And(zzrt.Not(isSlash), zzrt.And(f[k] != '+', f[k] != '#')))
	}
	return zzrt.And(ok, res)
}

// HasSharePrefix reports whether f starts with "$share/".
func HasSharePrefix(f []byte) bool {
	prefix := "$share/"
	if len(f) < len(prefix) {
		return false
	}
	ok := true
	for i := 0; i < len(prefix); i++ {
		ok = zzrt.And(ok, f[i] == prefix[i])
	}
	return ok
}
