// Package zzref holds reference oracles written from the MQTT specification (not
// from gmqtt's code).  The byte-level functions are written without data-dependent
// control flow (zzrt.And/Or instead of &&/||), so that executing them symbolically
// builds one formula instead of forking.
package zzref

import "github.com/DrmagicE/gmqtt/zzrt"

// ValidName: MQTT 4.7.1-1 / 4.7.3: at least one byte, no wildcard characters, no NUL.
// (Well-formed UTF-8 is checked separately; '+', '#' and NUL cannot occur inside a
// multi-byte UTF-8 sequence, so the byte test is exact.)
func ValidName(t []byte) bool {
	ok := len(t) >= 1
	for i := range t {
		ok = zzrt.And(ok, zzrt.And(t[i] != '+', zzrt.And(t[i] != '#', t[i] != 0)))
	}
	return ok
}

// ValidFilter: MQTT 4.7.1-2 / 4.7.1-3: '#' only as the last character and occupying a
// whole level; '+' only occupying a whole level; at least one byte; no NUL.
func ValidFilter(f []byte) bool {
	m := len(f)
	ok := m >= 1
	for i := range f {
		startsLevel := i == 0
		if i > 0 {
			startsLevel = f[i-1] == '/'
		}
		endsLevel := i == m-1
		if i < m-1 {
			endsLevel = f[i+1] == '/'
		}
		ok = zzrt.And(ok, f[i] != 0)
		ok = zzrt.And(ok, zzrt.Implies(f[i] == '#', zzrt.And(i == m-1, startsLevel)))
		ok = zzrt.And(ok, zzrt.Implies(f[i] == '+', zzrt.And(startsLevel, endsLevel)))
	}
	return ok
}

// Match: MQTT 4.7.1 / 4.7.2 on a valid topic name and a valid filter, as a dynamic
// programme over byte positions.  M[i][j] = "filter[i:] matches topic[j:]" where i is
// at a position reachable by whole-level consumption.
func Match(t, f []byte) bool {
	n, m := len(t), len(f)
	if n == 0 || m == 0 {
		return false
	}
	// M[i][j] for i in 0..m, j in 0..n
	M := make([][]bool, m+1)
	for i := range M {
		M[i] = make([]bool, n+1)
	}
	for j := 0; j <= n; j++ {
		M[m][j] = j == n
	}
	for i := m - 1; i >= 0; i-- {
		for j := n; j >= 0; j-- {
			// '#': matches the rest, including the parent level (handled below at '/')
			isHash := f[i] == '#'
			// '+': consume topic bytes up to the next '/' or the end
			var plus bool
			{
				// k = first position >= j with t[k]=='/' or k==n
				res := M[i+1][n]
				for k := n - 1; k >= j; k-- {
					res = zzrt.Or(zzrt.And(t[k] == '/', M[i+1][k]), zzrt.And(t[k] != '/', res))
				}
				plus = res
			}
			// literal byte (including '/')
			lit := false
			if j < n {
				lit = zzrt.And(f[i] == t[j], M[i+1][j+1])
			}
			// parent match: topic exhausted, filter remainder is exactly "/#"
			parent := false
			if j == n && i+2 == m {
				parent = zzrt.And(f[i] == '/', f[i+1] == '#')
			}
			M[i][j] = zzrt.Or(isHash, zzrt.Or(zzrt.And(f[i] == '+', plus), zzrt.And(zzrt.And(f[i] != '+', f[i] != '#'), zzrt.Or(lit, parent))))
		}
	}
	// 4.7.2: a filter starting with a wildcard does not match a topic starting with '$'
	dollar := zzrt.And(t[0] == '$', zzrt.Or(f[0] == '+', f[0] == '#'))
	return zzrt.And(M[0][0], zzrt.Not(dollar))
}

// Split splits on '/' (concrete strings only).
func Split(s string) []string {
	var out []string
	cur := ""
	for i := 0; i < len(s); i++ {
		if s[i] == '/' {
			out = append(out, cur)
			cur = ""
		} else {
			cur += string(s[i])
		}
	}
	return append(out, cur)
}

// MatchLevels: the level-wise reading of 4.7 (concrete strings; used with the pools).
func MatchLevels(topic, filter string) bool {
	if topic == "" || filter == "" {
		return false
	}
	T, F := Split(topic), Split(filter)
	if topic[0] == '$' && (F[0] == "+" || F[0] == "#") {
		return false
	}
	for i, fl := range F {
		if fl == "#" {
			return true
		}
		if i >= len(T) {
			return false
		}
		if fl == "+" {
			continue
		}
		if fl != T[i] {
			return false
		}
	}
	return len(T) == len(F)
}
