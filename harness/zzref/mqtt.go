package zzref

// An independent MQTT 3.1 / 3.1.1 / 5.0 control-packet decoder written from the OASIS
// specifications (MQTT 3.1.1 §2-3, MQTT 5.0 §2-3), sharing no code with gmqtt.  It
// turns one packet into a canonical list of fields; the harness maps gmqtt's packet
// structs to the same list and compares.
//
// Verdict: Malformed (the bytes do not parse as one packet of that type), Invalid (they
// parse, but break a MUST that is modelled here: reserved bits, QoS 3, zero packet
// identifier, duplicate / misplaced property, non-minimal length ...), Structural (parses
// and passes those; semantic rules not modelled here - string contents, topic syntax,
// client-id rules - may still make it a protocol error), WellFormed (parses, passes, and
// every string is plain printable ASCII without wildcards, so no semantic rule can object).

const (
	Malformed  = 0
	Invalid    = 1
	Structural = 2
	WellFormed = 3
)

// Field keys.
const (
	KType = 1 + iota
	KDup
	KQoS
	KRetain
	KPacketID
	KTopic
	KPayload
	KProtoName
	KProtoLevel
	KCleanStart
	KWillFlag
	KWillQoS
	KWillRetain
	KPasswordFlag
	KUsernameFlag
	KKeepAlive
	KClientID
	KWillTopic
	KWillPayload
	KUsername
	KPassword
	KSessionPresent
	KCode
	KFilter
	KSubQoS
	KSubNL
	KSubRAP
	KSubRH
	KAckCode
	KUnsubFilter
	KUserValue
	KProp     = 100 // + property id
	KWillProp = 200 // + property id
)

type Field struct {
	Key   int
	Num   uint64
	Bytes []byte
	IsBin bool
}

type dec struct {
	b     []byte
	p     int
	end   int
	bad   bool // structure
	inv   bool // a MUST
	plain bool
	f     []Field
}

func (d *dec) need(n int) bool {
	if d.bad || n < 0 || d.p+n > d.end {
		d.bad = true
		return false
	}
	return true
}
func (d *dec) u8() byte {
	if !d.need(1) {
		return 0
	}
	v := d.b[d.p]
	d.p++
	return v
}
func (d *dec) u16() uint16 {
	if !d.need(2) {
		return 0
	}
	v := uint16(d.b[d.p])<<8 | uint16(d.b[d.p+1])
	d.p += 2
	return v
}
func (d *dec) u32() uint32 {
	if !d.need(4) {
		return 0
	}
	v := uint32(d.b[d.p])<<24 | uint32(d.b[d.p+1])<<16 | uint32(d.b[d.p+2])<<8 | uint32(d.b[d.p+3])
	d.p += 4
	return v
}

// varint: MQTT 1.5.5 / 2.2.3: at most four bytes, minimal encoding.
func (d *dec) varint() uint32 {
	var v uint32
	for i := 0; i < 4; i++ {
		c := d.u8()
		if d.bad {
			return 0
		}
		v |= uint32(c&0x7f) << (7 * uint(i))
		if c&0x80 == 0 {
			if i > 0 && c == 0 {
				d.inv = true // non-minimal
			}
			return v
		}
	}
	d.bad = true
	return 0
}
func (d *dec) bin() []byte {
	n := int(d.u16())
	if !d.need(n) {
		return nil
	}
	v := d.b[d.p : d.p+n]
	d.p += n
	return v
}

// str: a UTF-8 encoded string; notes whether it is plain (printable ASCII, no wildcard / '$').
func (d *dec) str() []byte {
	v := d.bin()
	for _, c := range v {
		if c < 0x20 || c > 0x7e || c == '+' || c == '#' || c == '$' {
			d.plain = false
		}
	}
	return v
}
func (d *dec) num(k int, v uint64)   { d.f = append(d.f, Field{Key: k, Num: v}) }
func (d *dec) bytes(k int, v []byte) { d.f = append(d.f, Field{Key: k, Bytes: v, IsBin: true}) }
func b2u(b bool) uint64 {
	if b {
		return 1
	}
	return 0
}

// property value kinds (MQTT 5.0 table 2-4)
const (
	PByte = 1 + iota
	PU16
	PU32
	PVar
	PStr
	PBin
	PPair
)

func PropKind(id uint32) int {
	switch id {
	case 0x01, 0x17, 0x19, 0x24, 0x25, 0x28, 0x29, 0x2a:
		return PByte
	case 0x13, 0x21, 0x22, 0x23:
		return PU16
	case 0x02, 0x11, 0x18, 0x27:
		return PU32
	case 0x0b:
		return PVar
	case 0x03, 0x08, 0x12, 0x15, 0x1a, 0x1c, 0x1f:
		return PStr
	case 0x09, 0x16:
		return PBin
	case 0x26:
		return PPair
	}
	return 0
}

// where a property may appear (MQTT 5.0 table 2-4); ctx is the packet type, or 0 for will properties
func PropAllowed(id uint32, ctx byte) bool {
	const (
		will    = 0
		connect = 1
		connack = 2
		publish = 3
		puback  = 4
		pubrec  = 5
		pubrel  = 6
		pubcomp = 7
		sub     = 8
		suback  = 9
		unsub   = 10
		unsback = 11
		disc    = 14
		auth    = 15
	)
	in := func(set ...byte) bool {
		for _, s := range set {
			if s == ctx {
				return true
			}
		}
		return false
	}
	switch id {
	case 0x01, 0x02, 0x03, 0x08, 0x09:
		return in(publish, will)
	case 0x0b:
		return in(publish, sub)
	case 0x11:
		return in(connect, connack, disc)
	case 0x12, 0x13, 0x1a, 0x24, 0x25, 0x28, 0x29, 0x2a:
		return in(connack)
	case 0x15, 0x16:
		return in(connect, connack, auth)
	case 0x17, 0x19:
		return in(connect)
	case 0x18:
		return in(will)
	case 0x1c:
		return in(connack, disc)
	case 0x1f:
		return in(connack, puback, pubrec, pubrel, pubcomp, suback, unsback, disc, auth)
	case 0x21, 0x22, 0x27:
		return in(connect, connack)
	case 0x23:
		return in(publish)
	case 0x26:
		return true
	}
	return false
}

// props reads a property block and emits its fields ordered by identifier (repeats keep
// their order of appearance).
func (d *dec) props(ctx byte, base int) {
	n := int(d.varint())
	if !d.need(n) {
		return
	}
	stop := d.p + n
	saveEnd := d.end
	d.end = stop
	var got []Field
	for d.p < stop && !d.bad {
		id := d.varint()
		if d.bad {
			break
		}
		kind := PropKind(id)
		if kind == 0 {
			d.bad = true
			break
		}
		if !PropAllowed(id, ctx) {
			d.inv = true
		}
		if kind != PPair && !(id == 0x0b && ctx == 3) {
			for _, g := range got {
				if g.Key == base+int(id) {
					d.inv = true // included more than once
				}
			}
		}
		f := Field{Key: base + int(id)}
		switch kind {
		case PByte:
			f.Num = uint64(d.u8())
			if f.Num > 1 {
				d.inv = true
			}
		case PU16:
			f.Num = uint64(d.u16())
			if (id == 0x21 || id == 0x23) && f.Num == 0 {
				d.inv = true
			}
		case PU32:
			f.Num = uint64(d.u32())
			if id == 0x27 && f.Num == 0 {
				d.inv = true
			}
		case PVar:
			f.Num = uint64(d.varint())
			if f.Num == 0 {
				d.inv = true
			}
		case PStr:
			f.Bytes, f.IsBin = d.str(), true
		case PBin:
			f.Bytes, f.IsBin = d.bin(), true
		case PPair:
			f.Bytes, f.IsBin = d.str(), true
			got = append(got, f)
			f = Field{Key: KUserValue, Bytes: d.str(), IsBin: true}
		}
		got = append(got, f)
	}
	if d.p != stop {
		d.bad = true
	}
	// Authentication Data without an Authentication Method is a protocol error (3.1.2.11.10)
	hasMethod, hasData := false, false
	for _, g := range got {
		if g.Key == base+0x15 {
			hasMethod = true
		}
		if g.Key == base+0x16 {
			hasData = true
		}
	}
	if hasData && !hasMethod {
		d.inv = true
	}
	if ctx == 3 {
		for _, g := range got {
			if g.Key == base+0x0b {
				d.plain = false // legal from server to client only (MQTT-3.3.4-6): depends on the direction, not on the bytes
			}
		}
	}
	d.end = saveEnd
	if d.bad {
		return
	}
	// stable order by property id; a user property's value stays behind its key
	for id := 1; id < 0x30; id++ {
		for i := 0; i < len(got); i++ {
			if got[i].Key == base+id {
				d.f = append(d.f, got[i])
				if id == 0x26 {
					d.f = append(d.f, got[i+1])
				}
			}
		}
	}
}

// DecodePacket reads exactly one control packet from the front of b.
// version: 3 (MQTT 3.1), 4 (3.1.1), 5 (5.0) - the version in force on the connection
// (for CONNECT, the protocol level inside the packet decides).
func DecodePacket(b []byte, version byte) (fields []Field, used int, verdict int) {
	d := &dec{b: b, end: len(b), plain: true}
	h := d.u8()
	typ, flags := h>>4, h&15
	rl := int(d.varint())
	if d.bad || !d.need(rl) {
		return nil, 0, Malformed
	}
	d.end = d.p + rl
	d.num(KType, uint64(typ))
	v5 := version == 5
	// reserved flag bits, MQTT 2.2.2 / 2.1.3
	switch typ {
	case 3:
	case 6, 8, 10:
		if flags != 2 {
			d.inv = true
		}
	default:
		if flags != 0 {
			d.inv = true
		}
	}
	switch typ {
	case 1: // CONNECT
		name := d.str()
		level := d.u8()
		cf := d.u8()
		d.bytes(KProtoName, name)
		d.num(KProtoLevel, uint64(level))
		if !d.bad {
			switch {
			case string(name) == "MQTT" && (level == 4 || level == 5):
			case string(name) == "MQIsdp" && level == 3:
			default:
				d.inv = true // unsupported protocol: answered with a CONNACK
			}
		}
		v5 = level == 5
		if cf&1 != 0 {
			d.inv = true
		}
		clean, will, wq, wr, pw, un := cf&2 != 0, cf&4 != 0, cf>>3&3, cf&32 != 0, cf&64 != 0, cf&128 != 0
		if wq == 3 || (!will && (wq != 0 || wr)) {
			d.inv = true
		}
		if !v5 && pw && !un {
			d.inv = true // MQTT-3.1.2-22
		}
		d.num(KCleanStart, b2u(clean))
		d.num(KWillFlag, b2u(will))
		d.num(KWillQoS, uint64(wq))
		d.num(KWillRetain, b2u(wr))
		d.num(KPasswordFlag, b2u(pw))
		d.num(KUsernameFlag, b2u(un))
		d.num(KKeepAlive, uint64(d.u16()))
		if v5 {
			d.props(1, KProp)
		}
		id := d.str()
		d.bytes(KClientID, id)
		if len(id) == 0 || len(id) > 23 {
			d.plain = false // zero-length / long ids are subject to rules outside the wire format
		}
		if will {
			if v5 {
				d.props(0, KWillProp)
			}
			wt := d.str()
			d.bytes(KWillTopic, wt)
			if len(wt) == 0 {
				d.plain = false
			}
			d.bytes(KWillPayload, d.bin())
		}
		if un {
			d.bytes(KUsername, d.str())
		}
		if pw {
			d.bytes(KPassword, d.bin())
		}
	case 2: // CONNACK
		ack := d.u8()
		if ack > 1 {
			d.inv = true
		}
		d.num(KSessionPresent, uint64(ack&1))
		d.num(KCode, uint64(d.u8()))
		if v5 {
			d.props(2, KProp)
		}
	case 3: // PUBLISH
		dup, qos, retain := flags&8 != 0, flags>>1&3, flags&1 != 0
		if qos == 3 || (qos == 0 && dup) {
			d.inv = true
		}
		d.num(KDup, b2u(dup))
		d.num(KQoS, uint64(qos))
		d.num(KRetain, b2u(retain))
		t := d.str()
		d.bytes(KTopic, t)
		if len(t) == 0 {
			d.plain = false
		}
		if qos > 0 {
			id := d.u16()
			if id == 0 {
				d.inv = true
			}
			d.num(KPacketID, uint64(id))
		}
		if v5 {
			d.props(3, KProp)
		}
		if !d.bad {
			d.bytes(KPayload, d.b[d.p:d.end])
			d.p = d.end
		}
	case 4, 5, 6, 7: // PUBACK, PUBREC, PUBREL, PUBCOMP
		d.num(KPacketID, uint64(d.u16()))
		if v5 {
			// reason code and property length may be omitted (3.4.2.1 / 3.4.2.2.1)
			code := byte(0)
			if d.p < d.end {
				code = d.u8()
			}
			d.num(KCode, uint64(code))
			if d.p < d.end {
				d.props(typ, KProp)
			}
		}
	case 8: // SUBSCRIBE
		id := d.u16()
		if id == 0 {
			d.inv = true
		}
		d.num(KPacketID, uint64(id))
		if v5 {
			d.props(8, KProp)
		}
		n := 0
		for d.p < d.end && !d.bad {
			f := d.str()
			o := d.u8()
			d.plain = false // filters have their own syntax (checked against MQTT 4.7 elsewhere)
			d.bytes(KFilter, f)
			d.num(KSubQoS, uint64(o&3))
			// MQTT-3.8.3-4 (3.1.1) / 3.8.3.1 (5.0): reserved bits set or QoS 3 make the
			// SUBSCRIBE a Malformed Packet, not merely a protocol error
			if o&3 == 3 {
				d.bad = true
			}
			if v5 {
				if o&0xc0 != 0 {
					d.bad = true
				}
				if o>>4&3 == 3 {
					d.inv = true // Retain Handling 3 is a Protocol Error
				}
				d.num(KSubNL, uint64(o>>2&1))
				d.num(KSubRAP, uint64(o>>3&1))
				d.num(KSubRH, uint64(o>>4&3))
			} else if o&0xfc != 0 {
				d.bad = true
			}
			n++
		}
		if n == 0 {
			d.inv = true
		}
	case 9, 11: // SUBACK, UNSUBACK
		d.num(KPacketID, uint64(d.u16()))
		if v5 {
			d.props(typ, KProp)
		}
		if typ == 9 || v5 {
			n := 0
			for d.p < d.end && !d.bad {
				d.num(KAckCode, uint64(d.u8()))
				n++
			}
			if n == 0 {
				d.inv = true
			}
		}
	case 10: // UNSUBSCRIBE
		id := d.u16()
		if id == 0 {
			d.inv = true
		}
		d.num(KPacketID, uint64(id))
		if v5 {
			d.props(10, KProp)
		}
		n := 0
		for d.p < d.end && !d.bad {
			d.bytes(KUnsubFilter, d.str())
			d.plain = false
			n++
		}
		if n == 0 {
			d.inv = true
		}
	case 12, 13: // PINGREQ, PINGRESP
	case 14: // DISCONNECT
		if v5 {
			code := byte(0)
			if d.p < d.end {
				code = d.u8()
			}
			d.num(KCode, uint64(code))
			if d.p < d.end {
				d.props(14, KProp)
			}
		}
	case 15: // AUTH
		if !v5 {
			d.inv = true // type 15 is reserved before MQTT 5.0; parsed with the 5.0 layout so that leniency shows as Invalid, not as a parse failure
		}
		// 3.15.2.1: reason code and property length are omitted together (remaining length 0) or not at all
		code := byte(0)
		if d.p < d.end {
			code = d.u8()
			d.num(KCode, uint64(code))
			d.props(15, KProp)
		} else {
			d.num(KCode, 0)
		}
	default:
		d.bad = true
	}
	if d.bad || d.p != d.end {
		return nil, 0, Malformed
	}
	if d.inv {
		return d.f, d.p, Invalid
	}
	if d.plain {
		return d.f, d.p, WellFormed
	}
	return d.f, d.p, Structural
}
