package server

// C07 — retained messages at the broker level: the PUBLISH retain branch and the
// replay on SUBSCRIBE.

import (
	gmqtt "github.com/DrmagicE/gmqtt"
	submem "github.com/DrmagicE/gmqtt/persistence/subscription/mem"
	"github.com/DrmagicE/gmqtt/persistence/queue"
	"github.com/DrmagicE/gmqtt/persistence/subscription"
	"github.com/DrmagicE/gmqtt/pkg/packets"
	"github.com/DrmagicE/gmqtt/zzrt"
)

var zzC07Topics = []string{"a", "a/b", "$s/a"}

// ZZ_C07_PublishRetain: RETAIN=1 with payload stores exactly this message for the
// (alias-resolved) topic; RETAIN=1 with empty payload forgets it; RETAIN=0 changes nothing.
func ZZ_C07_PublishRetain() {
	srv := defaultServer()
	ver := packets.Version311
	if zzrt.ConcreteBool(zzrt.Bool()) {
		ver = packets.Version5
	}
	c := &client{server: srv, version: ver, out: make(chan packets.Packet, 8), close: make(chan struct{}),
		opts: &ClientOptions{ClientID: "c1", RetainAvailable: true, ServerTopicAliasMax: 5}, aliasMapper: make([][]byte, 6)}
	c.deliverMessage = func(string, *gmqtt.Message, subscription.IterationOptions) bool { return true }
	// pre-existing retained messages on every pool topic
	for _, t := range zzC07Topics {
		srv.retainedDB.AddOrReplace(&gmqtt.Message{Topic: t, QoS: 0, Retained: true, Payload: []byte("old")})
	}
	topic := zzC07Topics[zzrt.Choice(len(zzC07Topics))]
	retain := zzrt.ConcreteBool(zzrt.Bool())
	plen := zzrt.Choice(3)
	payload := zzrt.Bytes(plen)
	pub := &packets.Publish{Version: ver, Qos: 0, Retain: retain, TopicName: []byte(topic), Payload: payload, Properties: &packets.Properties{}}
	viaAlias := false
	if ver == packets.Version5 && zzrt.ConcreteBool(zzrt.Bool()) {
		// the topic travels as an alias bound earlier on this connection
		viaAlias = true
		c.aliasMapper[3] = []byte(topic)
		al := uint16(3)
		pub.TopicName = []byte{}
		pub.Properties.TopicAlias = &al
	}
	zzrt.Observe("viaalias", viaAlias)
	zzrt.Observe("plen", plen)
	// the same message may also be published by the broker itself as a will
	viaWill := !viaAlias && zzrt.Choice(2) == 1
	zzrt.Observe("viawill", viaWill)
	if viaWill {
		srv.subscriptionsDB = submem.NewStore()
		srv.mu.Lock()
		srv.sendWillLocked(&gmqtt.Message{Topic: topic, Retained: retain, Payload: payload}, "c1")
		srv.mu.Unlock()
		zzrt.Cover("will")
	} else {
		err := c.publishHandler(pub)
		zzrt.Assert(err == nil, "publish-accepted")
	}
	for _, t := range zzC07Topics {
		got := srv.retainedDB.GetRetainedMessage(t)
		switch {
		case t != topic || !retain:
			zzrt.Assert(got != nil && string(got.Payload) == "old", "other-topics-and-non-retained-publishes-change-nothing")
		case plen == 0:
			zzrt.Assert(got == nil, "empty-retained-payload-forgets-the-topic")
			zzrt.Cover("cleared")
		default:
			zzrt.Assert(got != nil && got.Topic == topic && zzrt.BytesEq(got.Payload, payload), "retained-publish-replaces-last-value")
			zzrt.Cover("stored")
		}
	}
}

// ZZ_C07_SubscribeReplay: on a non-shared SUBSCRIBE the matching kept messages are
// queued per Retain Handling, each once, at min(stored, granted) QoS, with RETAIN=1.
func ZZ_C07_SubscribeReplay() {
	srv := defaultServer()
	srv.subscriptionsDB = submem.NewStore()
	ver := packets.Version311
	if zzrt.ConcreteBool(zzrt.Bool()) {
		ver = packets.Version5
	}
	q := &zzRecQueue{}
	c := &client{server: srv, version: ver, rwc: &zzConn{}, queueStore: q, out: make(chan packets.Packet, 8), close: make(chan struct{}),
		opts: &ClientOptions{ClientID: "c1", SharedSubAvailable: true, WildcardSubAvailable: true, SubIDAvailable: true}}
	c.config.MQTT.SubscriptionIDAvailable = true
	storedQ := uint8(zzrt.Choice(3))
	srv.retainedDB.AddOrReplace(&gmqtt.Message{Topic: "a/b", QoS: storedQ, Retained: true, Payload: []byte("m1")})
	srv.retainedDB.AddOrReplace(&gmqtt.Message{Topic: "x", QoS: 1, Retained: true, Payload: []byte("m2")})
	filter := []string{"a/b", "a/+", "#", "a/c"}[zzrt.Choice(4)]
	shared := ver == packets.Version5 && zzrt.ConcreteBool(zzrt.Bool())
	name := filter
	if shared {
		name = "$share/g/" + filter
	}
	granted := uint8(zzrt.Choice(3))
	rh := uint8(0)
	rap := false
	if ver == packets.Version5 {
		rh = uint8(zzrt.Choice(3))
		rap = zzrt.ConcreteBool(zzrt.Bool())
	}
	existed := zzrt.ConcreteBool(zzrt.Bool())
	if existed {
		sn, tf := subscription.SplitTopic(name)
		srv.subscriptionsDB.Subscribe("c1", &gmqtt.Subscription{ShareName: sn, TopicFilter: tf, QoS: 0})
	}
	sub := &packets.Subscribe{Version: ver, PacketID: 9, Properties: &packets.Properties{},
		Topics: []packets.Topic{{Name: name, SubOptions: packets.SubOptions{Qos: granted, RetainHandling: rh, RetainAsPublished: rap}}}}
	err := c.subscribeHandler(sub)
	zzrt.Assert(err == nil, "subscribe-handled")
	out := zzDrain(c)
	zzrt.Assert(len(out) == 1, "one-suback")
	zzrt.Observe("rh", rh)
	zzrt.Observe("rap", rap)
	zzrt.Observe("shared", shared)
	zzrt.Observe("existed", existed)
	matchesAB := filter != "a/c"
	matchesX := filter == "#"
	replay := !shared && (rh == 0 || (rh == 1 && !existed))
	want := 0
	if replay && matchesAB {
		want++
	}
	if replay && matchesX {
		want++
	}
	zzrt.Assert(len(q.added) == want, "retained-replay-exactly-per-retain-handling")
	seenAB := 0
	for _, e := range q.added {
		m := e.MessageWithID.(*queue.Publish).Message
		if m.Topic == "a/b" {
			seenAB++
			wq := storedQ
			if granted < wq {
				wq = granted
			}
			zzrt.Assert(m.QoS == wq, "replayed-at-min-of-stored-and-granted-qos")
			zzrt.Assert(!m.Dup, "replayed-dup0")
			zzrt.Assert(m.Retained, "replayed-with-retain-1")
			zzrt.Assert(string(m.Payload) == "m1", "replayed-payload")
		}
	}
	if replay && matchesAB {
		zzrt.Assert(seenAB == 1, "each-matching-retained-message-once")
		zzrt.Cover("replayed")
	} else {
		zzrt.Cover("not-replayed")
	}
	// a replay hands out the kept message, it does not change it: the next subscriber
	// (another client, QoS 2, Retain As Published) is served from the unchanged store
	kept := srv.retainedDB.GetRetainedMessage("a/b")
	zzrt.Assert(kept != nil && kept.QoS == storedQ && kept.Retained && !kept.Dup && string(kept.Payload) == "m1", "replay-leaves-the-kept-message-unchanged")
	q2 := &zzRecQueue{}
	c2 := &client{server: srv, version: packets.Version5, rwc: &zzConn{}, queueStore: q2, out: make(chan packets.Packet, 8), close: make(chan struct{}),
		opts: &ClientOptions{ClientID: "c2", SharedSubAvailable: true, WildcardSubAvailable: true, SubIDAvailable: true}}
	sub2 := &packets.Subscribe{Version: packets.Version5, PacketID: 10, Properties: &packets.Properties{},
		Topics: []packets.Topic{{Name: "a/b", SubOptions: packets.SubOptions{Qos: 2, RetainAsPublished: true}}}}
	zzrt.Assert(c2.subscribeHandler(sub2) == nil, "second-subscribe-handled")
	zzrt.Assert(len(q2.added) == 1, "second-subscriber-gets-the-kept-message")
	if len(q2.added) == 1 {
		m2 := q2.added[0].MessageWithID.(*queue.Publish).Message
		zzrt.Assert(m2.QoS == storedQ && m2.Retained, "second-subscriber-gets-the-kept-message-at-its-stored-qos-with-retain")
	}
}
