package server

// C18 one-step harness: it constructs (*wsConn) states field by field, so it depends on
// the representation (buf, r).  The check spec lists this file as optional: when a
// refactoring of wsConn stops it compiling the stream / write harnesses still decide.

import (
	"github.com/DrmagicE/gmqtt/zzrt"
	"github.com/gorilla/websocket"
)

// ZZ_C18_ReadStep: one Read from an arbitrary representable wsConn state.
// Ghost "pending stream" = buf[r:] ++ payload of the one scripted message.
func ZZ_C18_ReadStep() {
	maxL := zzrt.Param("L")
	hasBuf := zzrt.Bool()
	var buf []byte
	r := 0
	if zzrt.ConcreteBool(hasBuf) {
		L := zzrt.Concrete(zzrt.IntRange(0, maxL))
		buf = zzrt.Bytes(L)
		r = zzrt.Concrete(zzrt.IntRange(0, L)) // invariant: 0 <= r <= len(buf)
	}
	mlen := zzrt.Concrete(zzrt.IntRange(0, maxL))
	mtyp := websocket.BinaryMessage
	if zzrt.ConcreteBool(zzrt.Bool()) {
		mtyp = websocket.TextMessage
	}
	msg := zzWSMsg{mtyp, zzrt.Bytes(mlen)}
	conn, done := zzWSConn([]zzWSMsg{msg})
	defer done()
	ws := &wsConn{c: conn, buf: buf, r: r}
	p := make([]byte, zzrt.Concrete(zzrt.IntRange(0, maxL)))

	var pre []byte
	if buf != nil {
		pre = append(pre, buf[r:]...)
	}
	n, err := ws.Read(p)
	zzrt.Observe("n", n)
	zzrt.Observe("err", err != nil)

	zzrt.Assert(n >= 0 && n <= len(p), "read-n-in-range")
	if buf == nil && mtyp == websocket.TextMessage {
		zzrt.Assert(err == ErrInvalWsMsgType && n == 0, "text-message-rejected")
		zzrt.Cover("text-rejected")
		return
	}
	zzrt.Assert(err == nil, "no-error-on-binary")
	// representation invariant re-established
	zzrt.Assert(ws.r >= 0 && (ws.buf != nil || ws.r == 0) && ws.r <= len(ws.buf), "invariant")
	var post []byte
	if ws.buf != nil {
		post = ws.buf[ws.r:]
	}
	zzrt.Observe("postlen", len(post))
	got := zzCat(p[:n], post)
	// k = 0: message not consumed; k = 1: consumed
	eq0 := zzrt.BytesEq(zzCat(got, msg.payload), zzCat(pre, msg.payload))
	eq1 := zzrt.BytesEq(got, zzCat(pre, msg.payload))
	if buf != nil {
		zzrt.Assert(eq0, "no-byte-lost")
	} else {
		zzrt.Assert(eq1, "no-byte-lost")
	}
	_ = eq1
	zzrt.Cover("binary-read")
}

