package server

// C20 across a broker restart on a persistent (redis) backend: the sessions the new
// process loads are offline sessions, and the gauges must say so from the first moment
// (entry: zzc09.ZZ_C20_Restart; uses the broker scaffolding of zz_c09.go).

import (
	gmqtt "github.com/DrmagicE/gmqtt"
	"github.com/DrmagicE/gmqtt/pkg/codes"
	"github.com/DrmagicE/gmqtt/pkg/packets"
	"github.com/DrmagicE/gmqtt/zzredis"
	"github.com/DrmagicE/gmqtt/zzrt"
)

func ZZC20Restart() {
	zz9All = nil
	defer zz9ReleaseAll()
	st := zzredis.NewStore()
	srv, err := zz9Boot(st)
	zzrt.Assert(err == nil, "first-start-succeeds")
	n := 1 + zzrt.Choice(zzrt.Param("N"))
	ids := []string{"c1", "c2", "c3"}[:n]
	E := zzrt.Uint32()
	zzrt.Assume(E >= 1)
	var clis []*zz9Cli
	for _, id := range ids {
		c := &zz9Cli{id: id, v5: true}
		ack := c.connect(srv, true, E)
		zzrt.Assert(ack != nil && ack.Code == codes.Success, "connect-accepted")
		clis = append(clis, c)
	}
	// some go offline before the broker stops; the others are cut by the stop itself
	for _, c := range clis {
		if zzrt.Choice(2) == 1 {
			c.hangup()
		}
	}
	for _, c := range clis {
		c.abandon()
	}
	srv2, err := zz9Boot(st.Survivor())
	zzrt.Assert(err == nil, "restart-succeeds")
	stored := 0
	srv2.sessionStore.Iterate(func(*gmqtt.Session) bool { stored++; return true })
	zzrt.Assert(stored == n, "all-sessions-restored")
	check := func(online int) {
		cs := srv2.statsManager.GetGlobalStats().ConnectionStats
		zzrt.Observe("active", cs.ActiveCurrent)
		zzrt.Observe("inactive", cs.InactiveCurrent)
		zzrt.Assert(cs.ActiveCurrent == uint64(online), "active-gauge-equals-online-sessions-after-restart")
		zzrt.Assert(cs.InactiveCurrent == uint64(stored-online), "inactive-gauge-equals-stored-offline-sessions-after-restart")
		zzrt.Assert(cs.ActiveCurrent < 1<<62 && cs.InactiveCurrent < 1<<62, "no-gauge-wraps-below-zero")
	}
	check(0)
	// the clients come back one after the other and resume
	online := 0
	for _, id := range ids {
		c := &zz9Cli{id: id, v5: true}
		ack := c.connect(srv2, false, E)
		zzrt.Assert(ack != nil && ack.Code == codes.Success && ack.SessionPresent, "session-resumed-after-restart")
		online++
		check(online)
	}
	zzrt.Cover("restarted")
	_ = packets.Version5
}
