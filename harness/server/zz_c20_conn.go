package server

// C20 at the call sites: the real serve() of one connection on a scripted byte stream;
// at every quiescent point the client's and the global packet / byte / message counters
// equal what was really exchanged on the wire.

import (
	"bytes"

	"github.com/DrmagicE/gmqtt/pkg/codes"
	"github.com/DrmagicE/gmqtt/pkg/packets"
	"github.com/DrmagicE/gmqtt/zzrt"
)

func ZZ_C20_Connection() {
	K := zzrt.Param("K")
	srv, pers := zzLifecycleServer()
	pers.blocking = true
	conn := &zzPipeConn{in: make(chan []byte, 16)}
	c, _ := srv.newClient(conn)
	done := false
	go func() { c.serve(); done = true }()
	// ground truth kept by the harness
	rcvBytes, rcvPackets := uint64(0), uint64(0)
	var rcvPub, rcvSub, rcvRel, rcvPing uint64
	var msgIn [3]uint64
	feed := func(p packets.Packet) {
		b := zzEncode(p)
		rcvBytes += uint64(len(b))
		rcvPackets++
		conn.in <- b
		zzrt.Yield()
	}
	feed(zzV5Connect("c1"))
	off := 0
	sentPackets := uint64(0)
	var sentAck, sentRec, sentComp, sentSuback, sentPong, sentConnack uint64
	see := func() {
		for _, p := range zzDecodeAll(conn, &off) {
			sentPackets++
			switch p.(type) {
			case *packets.Connack:
				sentConnack++
			case *packets.Puback:
				sentAck++
			case *packets.Pubrec:
				sentRec++
			case *packets.Pubcomp:
				sentComp++
			case *packets.Suback:
				sentSuback++
			case *packets.Pingresp:
				sentPong++
			}
		}
	}
	check := func() {
		see()
		cs, ok := srv.statsManager.GetClientStats("c1")
		zzrt.Assert(ok, "client-statistics-exist")
		ps := cs.PacketStats
		zzrt.Assert(ps.ReceivedTotal.Total == rcvPackets && ps.BytesReceived.Total == rcvBytes, "received-packets-and-bytes-equal-the-wire")
		zzrt.Assert(ps.ReceivedTotal.Connect == 1 && ps.ReceivedTotal.Publish == rcvPub && ps.ReceivedTotal.Subscribe == rcvSub && ps.ReceivedTotal.Pubrel == rcvRel && ps.ReceivedTotal.Pingreq == rcvPing, "received-packets-per-type-equal-the-wire")
		zzrt.Assert(ps.SentTotal.Total == sentPackets && ps.BytesSent.Total == uint64(len(conn.written)), "sent-packets-and-bytes-equal-the-wire")
		zzrt.Assert(ps.SentTotal.Connack == sentConnack && ps.SentTotal.Puback == sentAck && ps.SentTotal.Pubrec == sentRec && ps.SentTotal.Pubcomp == sentComp && ps.SentTotal.Suback == sentSuback && ps.SentTotal.Pingresp == sentPong, "sent-packets-per-type-equal-the-wire")
		ms := cs.MessageStats
		zzrt.Assert(ms.Qos0.ReceivedTotal == msgIn[0] && ms.Qos1.ReceivedTotal == msgIn[1] && ms.Qos2.ReceivedTotal == msgIn[2], "messages-received-per-qos-equal-the-publish-packets-received")
		g := srv.statsManager.GetGlobalStats()
		zzrt.Assert(g.PacketStats.ReceivedTotal.Total == rcvPackets && g.PacketStats.BytesReceived.Total == rcvBytes &&
			g.PacketStats.SentTotal.Total == sentPackets && g.PacketStats.BytesSent.Total == uint64(len(conn.written)), "global-counters-equal-the-single-client")
		zzrt.Assert(g.MessageStats.Qos0.ReceivedTotal == msgIn[0] && g.MessageStats.Qos1.ReceivedTotal == msgIn[1] && g.MessageStats.Qos2.ReceivedTotal == msgIn[2], "global-message-counters-equal-the-single-client")
	}
	check()
	zzrt.Assert(sentConnack == 1, "one-connack")
	nextID := packets.PacketID(1)
	var awaitingRel []packets.PacketID
	for step := 0; step < K; step++ {
		switch zzrt.Choice(4) {
		case 0: // PUBLISH with symbolic QoS and payload size
			q := zzrt.Byte()
			zzrt.Assume(q <= 2)
			qc := byte(zzrt.Concrete(int(q)))
			pub := &packets.Publish{Version: packets.Version5, FixHeader: &packets.FixHeader{PacketType: packets.PUBLISH, Flags: qc << 1}, Qos: qc,
				TopicName: []byte("t"), Payload: make([]byte, zzrt.Choice(3)), Properties: &packets.Properties{}}
			if qc > 0 {
				pub.PacketID = nextID
				nextID++
				if qc == 2 {
					awaitingRel = append(awaitingRel, pub.PacketID)
				}
			}
			rcvPub++
			msgIn[qc]++
			feed(pub)
		case 1:
			rcvSub++
			feed(&packets.Subscribe{Version: packets.Version5, FixHeader: &packets.FixHeader{PacketType: packets.SUBSCRIBE, Flags: 2}, PacketID: 900,
				Topics: []packets.Topic{{Name: "x", SubOptions: packets.SubOptions{Qos: 1}}}, Properties: &packets.Properties{}})
		case 2:
			if len(awaitingRel) == 0 {
				zzrt.Assume(false)
			}
			id := awaitingRel[0]
			awaitingRel = awaitingRel[1:]
			rcvRel++
			feed(&packets.Pubrel{FixHeader: &packets.FixHeader{PacketType: packets.PUBREL, Flags: 2}, PacketID: id, Properties: &packets.Properties{}})
		case 3:
			rcvPing++
			feed(&packets.Pingreq{FixHeader: &packets.FixHeader{PacketType: packets.PINGREQ}})
		}
		check()
		zzrt.Assert(!done, "connection-stays-up")
	}
	// optionally the client breaks a rule at the end (a topic alias above the advertised
	// maximum): the broker answers with DISCONNECT 0x94, which is a sent packet like any other
	if zzrt.Choice(2) == 1 {
		al := uint16(65535)
		rcvPub++
		msgIn[0]++
		feed(&packets.Publish{Version: packets.Version5, FixHeader: &packets.FixHeader{PacketType: packets.PUBLISH}, Qos: 0,
			TopicName: []byte("t"), Payload: []byte{1}, Properties: &packets.Properties{TopicAlias: &al}})
		zzrt.Yield()
		see()
		sawDisconnect := false
		rd := packets.NewReader(bytes.NewReader(conn.written))
		rd.SetVersion(packets.Version5)
		for {
			p, err := rd.ReadPacket()
			if err != nil {
				break
			}
			if d, ok := p.(*packets.Disconnect); ok {
				sawDisconnect = true
				zzrt.Assert(d.Code == codes.TopicAliasInvalid, "alias-above-the-maximum-answered-with-0x94")
			}
		}
		zzrt.Assert(sawDisconnect, "alias-above-the-maximum-answered-with-0x94")
		g := srv.statsManager.GetGlobalStats().PacketStats
		zzrt.Assert(g.SentTotal.Disconnect == 1 && g.SentTotal.Total == sentPackets && g.BytesSent.Total == uint64(len(conn.written)), "a-disconnect-sent-by-the-broker-is-counted")
		zzrt.Assert(g.ReceivedTotal.Total == rcvPackets && g.BytesReceived.Total == rcvBytes, "received-packets-and-bytes-equal-the-wire")
		zzrt.Cover("broker-disconnect")
	}
	close(conn.in)
	zzrt.Yield()
	zzrt.Assert(done, "serve-returns-once-the-connection-is-over")
	zzrt.Cover("connection-done")
	_ = codes.Success
}
