package server

// C01 — PUBLISH reaches exactly the matching subscribers, at the right QoS, in order;
// also carries C11's delivery clause (one copy per matching share group).

import (
	gmqtt "github.com/DrmagicE/gmqtt"
	"github.com/DrmagicE/gmqtt/config"
	"github.com/DrmagicE/gmqtt/persistence/queue"
	submem "github.com/DrmagicE/gmqtt/persistence/subscription/mem"
	"github.com/DrmagicE/gmqtt/pkg/packets"
	"github.com/DrmagicE/gmqtt/zzref"
	"github.com/DrmagicE/gmqtt/zzrt"
)

var zzC01Filters = []string{"a", "a/+", "#", "$s/#", "+/b"}
var zzC01Topics = []string{"a", "a/b", "$s/x"}
var zzC01Clients = []string{"c1", "c2"}

type zzSubRec struct {
	client string
	sub    *gmqtt.Subscription
}

func zzMinU8(a, b uint8) uint8 {
	return uint8(zzrt.IteInt(a < b, int(a), int(b)))
}

// expected copy of one (message, subscription) pair in overlap mode
func zzCopyMatches(got *gmqtt.Message, pubQoS uint8, pubRetained bool, s *gmqtt.Subscription) bool {
	r := got.QoS == zzMinU8(pubQoS, s.QoS)
	r = zzrt.And(r, got.Retained == zzrt.And(pubRetained, s.RetainAsPublished))
	r = zzrt.And(r, !got.Dup)
	if zzrt.ConcreteBool(s.ID != 0) {
		r = zzrt.And(r, len(got.SubscriptionIdentifier) == 1 && got.SubscriptionIdentifier[0] == s.ID)
	} else {
		r = zzrt.And(r, len(got.SubscriptionIdentifier) == 0)
	}
	return r
}

// ZZ_C01_Deliver: S subscriptions (symbolic options) installed through the real
// subscription store, one message through the real deliverMessage.
func ZZ_C01_Deliver() {
	S := zzrt.Param("S")
	srv := defaultServer()
	db := submem.NewStore()
	srv.subscriptionsDB = db
	mode := config.Overlap
	if zzrt.Choice(2) == 1 {
		mode = config.OnlyOnce
	}
	srv.config.MQTT.DeliveryMode = mode
	srv.config.MQTT.QueueQos0Msg = true
	srv.config.MQTT.MessageExpiry = 0
	queues := map[string]*zzRecQueue{}
	for _, c := range zzC01Clients {
		q := &zzRecQueue{}
		queues[c] = q
		srv.queueStore[c] = q
		srv.clients[c] = &client{opts: &ClientOptions{ClientID: c}}
	}
	// reference table: latest subscription per (client, group, filter)
	var recs []zzSubRec
	for i := 0; i < S; i++ {
		c := zzC01Clients[zzrt.Choice(2)]
		f := zzC01Filters[zzrt.Choice(zzrt.Param("F"))]
		q := zzrt.Byte()
		zzrt.Assume(q <= 2)
		s := &gmqtt.Subscription{TopicFilter: f, QoS: q}
		if zzrt.Choice(3) == 2 {
			s.ShareName = "g1"
			s.ID = uint32(100 + i) // tags the copy of this share-group member
		} else {
			s.NoLocal = zzrt.Bool()
			s.RetainAsPublished = zzrt.Bool()
			s.ID = zzrt.Uint32()
			zzrt.Assume(s.ID < 100)
		}
		db.Subscribe(c, s)
		var n []zzSubRec
		for _, r := range recs {
			if !(r.client == c && r.sub.TopicFilter == f && r.sub.ShareName == s.ShareName) {
				n = append(n, r)
			}
		}
		recs = append(n, zzSubRec{c, s})
	}
	topic := zzC01Topics[zzrt.Choice(len(zzC01Topics))]
	src := []string{"c1", "c2", ""}[zzrt.Choice(3)]
	pq := zzrt.Byte()
	zzrt.Assume(pq <= 2)
	pubRetained := zzrt.Bool()
	msg := &gmqtt.Message{Topic: topic, QoS: pq, Retained: pubRetained, Dup: zzrt.Bool(), Payload: []byte{7}}
	zzrt.Observe("mode", mode == config.OnlyOnce)
	matched := srv.deliverMessage(src, msg, defaultIterateOptions(topic))

	anyPassed := false
	sharedGroups := map[string][]zzSubRec{} // filter -> members (group g1)
	for _, c := range zzC01Clients {
		var want []*gmqtt.Subscription
		for _, r := range recs {
			if !zzref.MatchLevels(topic, r.sub.TopicFilter) {
				continue
			}
			if r.sub.ShareName != "" {
				if r.client == c {
					sharedGroups[r.sub.TopicFilter] = append(sharedGroups[r.sub.TopicFilter], r)
					anyPassed = true
				}
				continue
			}
			if r.client != c {
				continue
			}
			if c == src && zzrt.ConcreteBool(r.sub.NoLocal) {
				continue
			}
			anyPassed = true
			want = append(want, r.sub)
		}
		// non-shared copies queued for c (shared ones carry a tag id >= 100)
		var got []*gmqtt.Message
		for _, e := range queues[c].added {
			m := e.MessageWithID.(*queue.Publish).Message
			if len(m.SubscriptionIdentifier) == 1 && m.SubscriptionIdentifier[0] >= 100 {
				continue
			}
			got = append(got, m)
			zzrt.Assert(m.Topic == topic && len(m.Payload) == 1 && m.Payload[0] == 7, "copy-carries-topic-and-payload")
			zzrt.Assert(&m.Payload[0] != &msg.Payload[0], "copy-does-not-alias-the-published-message")
		}
		if mode == config.Overlap {
			zzrt.Assert(len(got) == len(want), "overlap-one-copy-per-matching-subscription")
			for _, s := range want {
				some := false
				for _, g := range got {
					some = zzrt.Or(some, zzCopyMatches(g, pq, pubRetained, s))
				}
				zzrt.Assert(some, "overlap-copy-for-each-matching-subscription")
			}
			for _, g := range got {
				some := false
				for _, s := range want {
					some = zzrt.Or(some, zzCopyMatches(g, pq, pubRetained, s))
				}
				zzrt.Assert(some, "overlap-every-copy-justified-by-a-subscription")
			}
		} else {
			if len(want) == 0 {
				zzrt.Assert(len(got) == 0, "nothing-for-a-client-without-matching-subscription")
			} else {
				zzrt.Assert(len(got) == 1, "onlyonce-single-copy")
				if len(got) == 1 {
					g := got[0]
					maxQ := uint8(0)
					allRAP, anyRAP := true, false
					nz := 0
					for _, s := range want {
						maxQ = uint8(zzrt.IteInt(s.QoS > maxQ, int(s.QoS), int(maxQ)))
						allRAP = zzrt.And(allRAP, s.RetainAsPublished)
						anyRAP = zzrt.Or(anyRAP, s.RetainAsPublished)
						if zzrt.ConcreteBool(s.ID != 0) {
							nz++
						}
					}
					zzrt.Assert(g.QoS == zzMinU8(pq, maxQ), "onlyonce-highest-matching-qos")
					zzrt.Assert(!g.Dup, "copy-dup0")
					zzrt.Assert(zzrt.Implies(g.Retained, zzrt.And(pubRetained, anyRAP)), "retain-only-under-retain-as-published")
					zzrt.Assert(zzrt.Implies(zzrt.And(allRAP, pubRetained), g.Retained), "retain-kept-under-retain-as-published")
					zzrt.Assert(len(g.SubscriptionIdentifier) == nz, "onlyonce-carries-all-matching-subscription-ids")
					for _, s := range want {
						if zzrt.ConcreteBool(s.ID != 0) {
							some := false
							for _, id := range g.SubscriptionIdentifier {
								some = zzrt.Or(some, id == s.ID)
							}
							zzrt.Assert(some, "onlyonce-carries-all-matching-subscription-ids")
						}
					}
				}
			}
		}
		if len(want) == 0 {
			zzrt.Assert(len(got) == 0, "nothing-for-a-client-without-matching-subscription")
		}
	}
	// C11: exactly one copy per matching share group, to a current member, at min QoS
	for f, members := range sharedGroups {
		copies := 0
		for _, c := range zzC01Clients {
			for _, e := range queues[c].added {
				m := e.MessageWithID.(*queue.Publish).Message
				if len(m.SubscriptionIdentifier) != 1 || m.SubscriptionIdentifier[0] < 100 {
					continue
				}
				for _, r := range members {
					if r.sub.ID == m.SubscriptionIdentifier[0] {
						copies++
						zzrt.Assert(r.client == c, "shared-copy-goes-to-the-selected-member")
						zzrt.Assert(m.QoS == zzMinU8(pq, r.sub.QoS), "shared-copy-at-min-of-published-and-member-qos")
					}
				}
			}
		}
		_ = f
		zzrt.Assert(copies == 1, "exactly-one-copy-per-share-group")
		zzrt.Cover("shared-group-served")
	}
	zzrt.Assert(matched == anyPassed, "matched-flag-iff-some-subscription-matched")
	zzrt.Cover("delivered")
}

// ZZ_C01_Order: messages read from the session queue are written in queue order; the
// supplied packet identifiers go, in order, to the QoS>0 ones; the rest are returned.
func ZZ_C01_Order() {
	K := zzrt.Param("K")
	q := &zzRecQueue{}
	ver := packets.Version311
	if zzrt.ConcreteBool(zzrt.Bool()) {
		ver = packets.Version5
	}
	c := &client{version: ver, queueStore: q, out: make(chan packets.Packet, 16), close: make(chan struct{}), opts: &ClientOptions{ClientID: "c1"}}
	var qos []uint8
	script := []*queue.Elem{}
	for i := 0; i < K; i++ {
		qq := uint8(zzrt.Choice(3))
		qos = append(qos, qq)
		script = append(script, &queue.Elem{MessageWithID: &queue.Publish{Message: &gmqtt.Message{Topic: "t", QoS: qq, Payload: []byte{byte(i)}}}})
	}
	q.script = script
	ids := []packets.PacketID{11, 12, 13, 14}[:K]
	unused, err := c.pollNewMessages(ids)
	zzrt.Assert(err == nil, "poll-ok")
	out := zzDrain(c)
	zzrt.Assert(len(out) == K, "every-read-message-written")
	next := 0
	for i, p := range out {
		pub := p.(*packets.Publish)
		zzrt.Assert(len(pub.Payload) == 1 && pub.Payload[0] == byte(i), "written-in-queue-order")
		if qos[i] > 0 {
			zzrt.Assert(pub.PacketID == ids[next], "ids-assigned-in-order")
			next++
		} else {
			zzrt.Assert(pub.PacketID == 0, "qos0-without-id")
		}
	}
	zzrt.Assert(len(unused) == K-next, "unused-ids-returned")
	for i, u := range unused {
		zzrt.Assert(u == ids[next+i], "unused-ids-are-the-tail")
	}
	zzrt.Cover("order-done")
}

// ZZ_C01_Ack: every accepted QoS 1/2 PUBLISH is acknowledged with the same identifier;
// v5 reports 0x10 exactly when nobody matched.
func ZZ_C01_Ack() {
	srv := defaultServer()
	ver := packets.Version311
	if zzrt.ConcreteBool(zzrt.Bool()) {
		ver = packets.Version5
	}
	c := &client{server: srv, version: ver, out: make(chan packets.Packet, 8), close: make(chan struct{}), opts: &ClientOptions{ClientID: "c1", RetainAvailable: true}}
	c.unackStore = &zzUnack{}
	matched := zzrt.Bool()
	c.deliverMessage = func(string, *gmqtt.Message, subscriptionIterationOptions) bool { return matched }
	id := zzrt.Uint16()
	qos := uint8(zzrt.Choice(3))
	err := c.publishHandler(&packets.Publish{Version: ver, Qos: qos, PacketID: id, TopicName: []byte("t"), Payload: []byte{1}, Properties: &packets.Properties{}})
	zzrt.Assert(err == nil, "publish-accepted")
	out := zzDrain(c)
	switch qos {
	case 0:
		zzrt.Assert(len(out) == 0, "qos0-not-acknowledged")
	case 1:
		zzrt.Assert(len(out) == 1, "one-ack")
		a, ok := out[0].(*packets.Puback)
		zzrt.Assert(ok && a.PacketID == id, "puback-same-id")
		if ver == packets.Version5 {
			zzrt.Assert((a.Code == 0x10) == !matched && (a.Code == 0) == matched, "v5-no-matching-subscribers-code")
		}
	case 2:
		zzrt.Assert(len(out) == 1, "one-ack")
		a, ok := out[0].(*packets.Pubrec)
		zzrt.Assert(ok && a.PacketID == id, "pubrec-same-id")
		if ver == packets.Version5 {
			zzrt.Assert((a.Code == 0x10) == !matched && (a.Code == 0) == matched, "v5-no-matching-subscribers-code")
		}
	}
	zzrt.Cover("ack-done")
}
