package server

// C18 — WebSocket transport delivers the exact byte stream of the binary messages.
// Harnesses drive the real (*wsConn).Read / Write.  In symbolic mode the gorilla
// connection is a scripted model (zz_c18_sym.go); natively it is a real gorilla
// connection over a loopback HTTP upgrade (zz_c18_native.go).

import (
	"github.com/DrmagicE/gmqtt/zzrt"
	"github.com/gorilla/websocket"
)

type zzWSMsg struct {
	typ     int
	payload []byte
}

func zzCat(parts ...[]byte) []byte {
	var out []byte
	for _, p := range parts {
		out = append(out, p...)
	}
	return out
}

// ZZ_C18_Stream: q binary/text messages, reads of arbitrary sizes until the first
// error; everything returned must be the concatenation of the binary payloads that
// precede the first text message.
func ZZ_C18_Stream() {
	q := zzrt.Param("Q")
	maxL := zzrt.Param("L")
	reads := zzrt.Param("READS")
	var msgs []zzWSMsg
	var want []byte
	text := false
	for i := 0; i < q; i++ {
		l := zzrt.Concrete(zzrt.IntRange(0, maxL))
		t := websocket.BinaryMessage
		if zzrt.ConcreteBool(zzrt.Bool()) {
			t = websocket.TextMessage
		}
		m := zzWSMsg{t, zzrt.Bytes(l)}
		msgs = append(msgs, m)
		if t == websocket.TextMessage {
			text = true
		}
		if !text {
			want = append(want, m.payload...)
		}
	}
	conn, done := zzWSConn(msgs)
	defer done()
	ws := &wsConn{c: conn}
	var got []byte
	sawErr := false
	idle := 0
	empties := 0
	for _, m := range msgs {
		if len(m.payload) == 0 {
			empties++
		}
	}
	for i := 0; i < reads; i++ {
		p := make([]byte, zzrt.Concrete(zzrt.IntRange(1, maxL+1)))
		n, err := ws.Read(p)
		if n == 0 && err == nil {
			// only an empty message can make a read return nothing without an error
			idle++
			zzrt.Assert(idle <= empties, "read-makes-progress")
		}
		got = append(got, p[:n]...)
		if err != nil {
			sawErr = true
			if text {
				zzrt.Assert(err == ErrInvalWsMsgType || len(got) == len(want), "text-rejected-in-stream")
			}
			break
		}
	}
	zzrt.Observe("gotlen", len(got))
	zzrt.Observe("got", got)
	if sawErr {
		zzrt.Assert(len(got) == len(want) && zzrt.BytesEq(got, want), "stream-equals-binary-payloads")
		zzrt.Cover("stream-complete")
	} else {
		// not finished within the read budget: what was read is a prefix
		zzrt.Assert(len(got) <= len(want) && zzrt.BytesEq(got, want[:min(len(got), len(want))]), "stream-prefix")
	}
}

// ZZ_C18_Write: every Write becomes exactly one binary message with the same bytes.
func ZZ_C18_Write() {
	maxL := zzrt.Param("L")
	k := zzrt.Param("K")
	conn, sent, done := zzWSSink()
	defer done()
	ws := &wsConn{c: conn}
	var want []byte
	for i := 0; i < k; i++ {
		p := zzrt.Bytes(zzrt.Concrete(zzrt.IntRange(0, maxL)))
		n, err := ws.Write(p)
		zzrt.Assert(err == nil && n == len(p), "write-returns-len")
		want = append(want, p...)
	}
	msgs := sent(k)
	zzrt.Assert(len(msgs) == k, "one-message-per-write")
	var got []byte
	for _, m := range msgs {
		zzrt.Assert(m.typ == websocket.BinaryMessage, "written-as-binary")
		got = append(got, m.payload...)
	}
	zzrt.Observe("got", got)
	zzrt.Assert(zzrt.BytesEq(got, want), "written-stream-equal")
	zzrt.Cover("write-done")
}
