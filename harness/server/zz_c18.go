package server

// C18 — WebSocket transport delivers the exact byte stream of the binary messages.
// Harnesses drive the real (*wsConn).Read / Write.  In symbolic mode the gorilla
// connection is a scripted model (zz_c18_sym.go); natively it is a real gorilla
// connection over a loopback HTTP upgrade (zz_c18_native.go).

import (
	"github.com/DrmagicE/gmqtt/zzrt"
	"github.com/gorilla/websocket"
)

type zzWSMsg struct {
	typ     int
	payload []byte
}

func zzCat(parts ...[]byte) []byte {
	var out []byte
	for _, p := range parts {
		out = append(out, p...)
	}
	return out
}

// ZZ_C18_ReadStep: one Read from an arbitrary representable wsConn state.
// Ghost "pending stream" = buf[r:] ++ payload of the one scripted message.
func ZZ_C18_ReadStep() {
	maxL := zzrt.Param("L")
	hasBuf := zzrt.Bool()
	var buf []byte
	r := 0
	if zzrt.ConcreteBool(hasBuf) {
		L := zzrt.Concrete(zzrt.IntRange(0, maxL))
		buf = zzrt.Bytes(L)
		r = zzrt.Concrete(zzrt.IntRange(0, L)) // invariant: 0 <= r <= len(buf)
	}
	mlen := zzrt.Concrete(zzrt.IntRange(0, maxL))
	mtyp := websocket.BinaryMessage
	if zzrt.ConcreteBool(zzrt.Bool()) {
		mtyp = websocket.TextMessage
	}
	msg := zzWSMsg{mtyp, zzrt.Bytes(mlen)}
	conn, done := zzWSConn([]zzWSMsg{msg})
	defer done()
	ws := &wsConn{c: conn, buf: buf, r: r}
	p := make([]byte, zzrt.Concrete(zzrt.IntRange(0, maxL)))

	var pre []byte
	if buf != nil {
		pre = append(pre, buf[r:]...)
	}
	n, err := ws.Read(p)
	zzrt.Observe("n", n)
	zzrt.Observe("err", err != nil)

	zzrt.Assert(n >= 0 && n <= len(p), "read-n-in-range")
	if buf == nil && mtyp == websocket.TextMessage {
		zzrt.Assert(err == ErrInvalWsMsgType && n == 0, "text-message-rejected")
		zzrt.Cover("text-rejected")
		return
	}
	zzrt.Assert(err == nil, "no-error-on-binary")
	// representation invariant re-established
	zzrt.Assert(ws.r >= 0 && (ws.buf != nil || ws.r == 0) && ws.r <= len(ws.buf), "invariant")
	var post []byte
	if ws.buf != nil {
		post = ws.buf[ws.r:]
	}
	zzrt.Observe("postlen", len(post))
	got := zzCat(p[:n], post)
	// k = 0: message not consumed; k = 1: consumed
	eq0 := zzrt.BytesEq(zzCat(got, msg.payload), zzCat(pre, msg.payload))
	eq1 := zzrt.BytesEq(got, zzCat(pre, msg.payload))
	if buf != nil {
		zzrt.Assert(eq0, "no-byte-lost")
	} else {
		zzrt.Assert(eq1, "no-byte-lost")
	}
	_ = eq1
	zzrt.Cover("binary-read")
}

// ZZ_C18_Stream: q binary/text messages, reads of arbitrary sizes until the first
// error; everything returned must be the concatenation of the binary payloads that
// precede the first text message.
func ZZ_C18_Stream() {
	q := zzrt.Param("Q")
	maxL := zzrt.Param("L")
	reads := zzrt.Param("READS")
	var msgs []zzWSMsg
	var want []byte
	text := false
	for i := 0; i < q; i++ {
		l := zzrt.Concrete(zzrt.IntRange(0, maxL))
		t := websocket.BinaryMessage
		if zzrt.ConcreteBool(zzrt.Bool()) {
			t = websocket.TextMessage
		}
		m := zzWSMsg{t, zzrt.Bytes(l)}
		msgs = append(msgs, m)
		if t == websocket.TextMessage {
			text = true
		}
		if !text {
			want = append(want, m.payload...)
		}
	}
	conn, done := zzWSConn(msgs)
	defer done()
	ws := &wsConn{c: conn}
	var got []byte
	sawErr := false
	for i := 0; i < reads; i++ {
		p := make([]byte, zzrt.Concrete(zzrt.IntRange(1, maxL+1)))
		n, err := ws.Read(p)
		got = append(got, p[:n]...)
		if err != nil {
			sawErr = true
			if text {
				zzrt.Assert(err == ErrInvalWsMsgType || len(got) == len(want), "text-rejected-in-stream")
			}
			break
		}
	}
	zzrt.Observe("gotlen", len(got))
	zzrt.Observe("got", got)
	if sawErr {
		zzrt.Assert(len(got) == len(want) && zzrt.BytesEq(got, want), "stream-equals-binary-payloads")
		zzrt.Cover("stream-complete")
	} else {
		// not finished within the read budget: what was read is a prefix
		zzrt.Assert(len(got) <= len(want) && zzrt.BytesEq(got, want[:min(len(got), len(want))]), "stream-prefix")
	}
}

// ZZ_C18_Write: every Write becomes exactly one binary message with the same bytes.
func ZZ_C18_Write() {
	maxL := zzrt.Param("L")
	k := zzrt.Param("K")
	conn, sent, done := zzWSSink()
	defer done()
	ws := &wsConn{c: conn}
	var want []byte
	for i := 0; i < k; i++ {
		p := zzrt.Bytes(zzrt.Concrete(zzrt.IntRange(0, maxL)))
		n, err := ws.Write(p)
		zzrt.Assert(err == nil && n == len(p), "write-returns-len")
		want = append(want, p...)
	}
	msgs := sent(k)
	zzrt.Assert(len(msgs) == k, "one-message-per-write")
	var got []byte
	for _, m := range msgs {
		zzrt.Assert(m.typ == websocket.BinaryMessage, "written-as-binary")
		got = append(got, m.payload...)
	}
	zzrt.Observe("got", got)
	zzrt.Assert(zzrt.BytesEq(got, want), "written-stream-equal")
	zzrt.Cover("write-done")
}
