package server

// C19 (broker side) — packets arriving before a successful CONNECT (or after a failed
// one) have no effect; the authentication-method property cannot bypass the basic
// authentication hook.

import (
	"context"

	gmqtt "github.com/DrmagicE/gmqtt"
	"github.com/DrmagicE/gmqtt/persistence/subscription"
	submem "github.com/DrmagicE/gmqtt/persistence/subscription/mem"
	"github.com/DrmagicE/gmqtt/pkg/codes"
	"github.com/DrmagicE/gmqtt/pkg/packets"
	"github.com/DrmagicE/gmqtt/zzrt"
)

func zzAnyPacket(k int, ver packets.Version) packets.Packet {
	pp := &packets.Properties{}
	switch k {
	case 0:
		return &packets.Publish{Version: ver, Qos: 1, PacketID: 1, Retain: true, TopicName: []byte("t"), Payload: []byte("x"), Properties: pp}
	case 1:
		return &packets.Subscribe{Version: ver, PacketID: 1, Topics: []packets.Topic{{Name: "#"}}, Properties: pp}
	case 2:
		return &packets.Unsubscribe{Version: ver, PacketID: 1, Topics: []string{"#"}, Properties: pp}
	case 3:
		return &packets.Pingreq{}
	case 4:
		return &packets.Disconnect{Version: ver, Properties: pp}
	case 5:
		return &packets.Puback{Version: ver, PacketID: 1, Properties: pp}
	case 6:
		return &packets.Pubrel{PacketID: 1, Properties: pp}
	case 7:
		return &packets.Auth{Code: codes.ContinueAuthentication, Properties: pp}
	default:
		return &packets.Pubcomp{Version: ver, PacketID: 1, Properties: pp}
	}
}

// ZZ_C19_PreConnect: a sequence of up to 3 packets hits connectWithTimeOut; whatever the
// sequence, nothing is registered, delivered, subscribed or retained unless a CONNECT
// passed the authentication hook, and nothing at all after a rejected CONNECT.
func ZZ_C19_PreConnect() {
	srv := defaultServer()
	srv.config.MQTT.TopicAliasMax = 4
	db := submem.NewStore()
	srv.subscriptionsDB = db
	reject := zzrt.ConcreteBool(zzrt.Bool())
	authCalls := 0
	srv.hooks.OnBasicAuth = func(ctx context.Context, cl Client, req *ConnectRequest) error {
		authCalls++
		if reject {
			return codes.NewError(codes.NotAuthorized)
		}
		return nil
	}
	c, _ := srv.newClient(&zzConn{})
	registered, delivered := 0, 0
	c.register = func(*packets.Connect, *client) (bool, error) { registered++; return false, nil }
	c.unregister = func(*client) {}
	c.deliverMessage = func(string, *gmqtt.Message, subscription.IterationOptions) bool { delivered++; return true }
	ver := packets.Version311
	v5 := zzrt.ConcreteBool(zzrt.Bool())
	if v5 {
		ver = packets.Version5
	}
	n := zzrt.Choice(3) + 1
	connectAt := -1
	for i := 0; i < n; i++ {
		if zzrt.Choice(2) == 0 {
			if connectAt < 0 {
				connectAt = i
			}
			if v5 {
				c.in <- zzV5Connect("c1")
			} else {
				c.in <- zzV3Connect("c1")
			}
		} else {
			c.in <- zzAnyPacket(zzrt.Choice(9), ver)
		}
	}
	close(c.in)
	ok := c.connectWithTimeOut()
	accepted := connectAt == 0 && !reject
	zzrt.Observe("accepted", ok)
	zzrt.Assert(ok == accepted, "connected-iff-first-packet-is-an-authenticated-connect")
	zzrt.Assert(registered == map[bool]int{true: 1, false: 0}[accepted], "registered-only-after-successful-authentication")
	zzrt.Assert(delivered == 0, "nothing-delivered-before-authentication")
	zzrt.Assert(db.GetStats().SubscriptionsCurrent == 0, "no-subscription-before-authentication")
	zzrt.Assert(srv.retainedDB.GetRetainedMessage("t") == nil, "no-retained-message-before-authentication")
	zzrt.Assert(len(srv.clients) == 0, "no-client-entry-created-by-the-harness-stub")
	if connectAt == 0 {
		zzrt.Assert(authCalls == 1, "authentication-hook-consulted-once")
	} else {
		zzrt.Assert(authCalls == 0 && !ok && c.err != nil, "non-connect-first-packet-closes-the-connection")
	}
	if accepted {
		zzrt.Cover("accepted")
	} else {
		zzrt.Cover("refused")
	}
}

// ZZ_C19_MethodGate: with only a basic-authentication hook installed (the auth
// plugin's situation) a v5 CONNECT carrying an Authentication Method cannot be
// accepted without the hook's consent.
func ZZ_C19_MethodGate() {
	srv := defaultServer()
	verdictOK := zzrt.ConcreteBool(zzrt.Bool())
	calls := 0
	srv.hooks.OnBasicAuth = func(ctx context.Context, cl Client, req *ConnectRequest) error {
		calls++
		if verdictOK {
			return nil
		}
		return codes.NewError(codes.NotAuthorized)
	}
	c, _ := srv.newClient(&zzConn{})
	var conn *packets.Connect
	switch zzrt.Choice(3) {
	case 0:
		conn = zzV3Connect("c1")
		conn.Version, conn.ProtocolLevel, conn.ProtocolName = packets.Version31, 3, []byte("MQIsdp")
	case 1:
		conn = zzV3Connect("c1")
	default:
		conn = zzV5Connect("c1")
		if zzrt.ConcreteBool(zzrt.Bool()) {
			conn.Properties.AuthMethod = zzrt.Bytes(zzrt.Choice(3))
		}
		if zzrt.ConcreteBool(zzrt.Bool()) {
			conn.Properties.AuthData = zzrt.Bytes(1)
		}
	}
	conn.UsernameFlag, conn.PasswordFlag = zzrt.Bool(), zzrt.Bool()
	_, _, err := c.connectHandler(conn)
	zzrt.Observe("ok", err == nil)
	zzrt.Assert(zzrt.Implies(err == nil, calls == 1 && verdictOK), "accepted-only-with-the-authentication-hooks-consent")
	if conn.Properties == nil || conn.Properties.AuthMethod == nil {
		zzrt.Assert((err == nil) == verdictOK && calls == 1, "basic-authentication-decides")
		zzrt.Cover("basic")
	} else {
		zzrt.Assert(err != nil, "authentication-method-without-enhanced-hook-fails-closed")
		zzrt.Cover("method")
	}
}
