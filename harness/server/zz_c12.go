package server

// C12 — message expiry: deadline computation at enqueue time and remaining lifetime
// forwarded to v5 subscribers.

import (
	"time"

	gmqtt "github.com/DrmagicE/gmqtt"
	"github.com/DrmagicE/gmqtt/config"
	"github.com/DrmagicE/gmqtt/persistence/queue"
	"github.com/DrmagicE/gmqtt/pkg/packets"
	"github.com/DrmagicE/gmqtt/zzrt"
)

// ZZ_C12_Deadline: queued Elem.Expiry = now + min(publisher interval, configured cap).
func ZZ_C12_Deadline() {
	E := zzrt.Uint32()
	capNs := zzrt.Int64()
	zzrt.Assume(capNs >= 0 && capNs < 1<<62)
	zzrt.ClockAdvance(time.Duration(zzrt.IntRange(0, 1<<50)))
	srv := &server{clients: map[string]*client{}}
	srv.config.MQTT = config.MQTT{MessageExpiry: time.Duration(capNs), QueueQos0Msg: true}
	q := &zzRecQueue{}
	msg := &gmqtt.Message{Topic: "a", QoS: 1, MessageExpiry: E}
	sub := &gmqtt.Subscription{TopicFilter: "a", QoS: 1}
	now := time.Now()
	srv.addMsgToQueueLocked(now, "c1", msg, sub, nil, q)
	zzrt.Assert(len(q.added) == 1, "queued-once")
	el := q.added[0]
	zzrt.Observe("E", E)
	zzrt.Observe("cap", capNs)
	zzrt.Assert(el.At.Equal(now), "enqueue-time-recorded")
	eNs := int64(E) * int64(time.Second)
	// expected lifetime: the smaller of the present limits; none present => no expiry
	none := zzrt.And(E == 0, capNs == 0)
	zzrt.Assert(el.Expiry.IsZero() == none, "expiry-present-iff-limited")
	var life int64
	switch {
	case zzrt.ConcreteBool(E == 0):
		life = capNs
	case zzrt.ConcreteBool(capNs == 0):
		life = eNs
	default:
		life = int64(zzrt.IteInt(eNs < capNs, int(eNs), int(capNs)))
	}
	if !zzrt.ConcreteBool(none) {
		got := el.Expiry.Sub(el.At)
		zzrt.Observe("life", int64(got))
		zzrt.Assert(int64(got) == life, "lifetime-is-min-of-interval-and-cap")
	}
	zzrt.Cover("deadline-checked")
}

// ZZ_C12_Remaining: a v5 subscriber is given original interval minus whole seconds
// waited; never more than the original, never absent; v3 gets no property.
func ZZ_C12_Remaining() {
	E := zzrt.Uint32()
	zzrt.Assume(E != 0)
	ver := packets.Version311
	if zzrt.ConcreteBool(zzrt.Bool()) {
		ver = packets.Version5
	}
	qos := uint8(zzrt.Choice(3))
	waited := zzrt.Int64()
	// the message waited 0 <= waited <= E seconds when Read handed it out (the queue hands
	// out a message whose deadline is now: it has not elapsed yet), plus whatever passes
	// before the publish is built (slack)
	zzrt.Assume(waited >= 0 && waited <= int64(E)*int64(time.Second)+(1<<32))
	// Read blocks for `idle` before it returns (the subscriber was idle); the message was
	// queued `waited` before Read returns - before or while the poll was blocked
	idle := zzrt.Int64()
	zzrt.Assume(idle >= 0 && idle < 1<<52)
	zzrt.Observe("idle", idle)
	zzrt.ClockAdvance(time.Duration(waited))
	q := &zzRecQueue{}
	c := &client{version: ver, queueStore: q, out: make(chan packets.Packet, 8), close: make(chan struct{}), opts: &ClientOptions{ClientID: "c1"}}
	msg := &gmqtt.Message{Topic: "a", QoS: qos, MessageExpiry: E, Payload: []byte{1}}
	el := &queue.Elem{MessageWithID: &queue.Publish{Message: msg}}
	q.script = []*queue.Elem{el}
	q.onRead = func() {
		zzrt.ClockAdvance(time.Duration(idle))
		el.At = time.Now().Add(-time.Duration(waited))
		el.Expiry = el.At.Add(time.Duration(E) * time.Second)
	}
	_, err := c.pollNewMessages([]packets.PacketID{7})
	zzrt.Assert(err == nil, "poll-no-error")
	out := zzDrain(c)
	zzrt.Assert(len(out) == 1, "one-publish-written")
	pub := out[0].(*packets.Publish)
	zzrt.Observe("E", E)
	zzrt.Observe("waited", waited)
	if ver == packets.Version5 {
		zzrt.Assert(pub.Properties != nil && pub.Properties.MessageExpiry != nil, "v5-expiry-never-absent")
		got := *pub.Properties.MessageExpiry
		zzrt.Observe("got", got)
		zzrt.Assert(got <= E, "v5-expiry-not-more-than-original")
		zzrt.Assert(got >= 1, "v5-expiry-never-absent")
		if zzrt.ConcreteBool(waited/int64(time.Second) < int64(E)) {
			want := E - uint32(waited/int64(time.Second))
			zzrt.Assert(got == want, "v5-expiry-is-original-minus-waited-seconds")
			zzrt.Cover("v5-checked")
		} else {
			// the whole lifetime is used up at the moment of delivery: nothing but the
			// smallest present value is left
			zzrt.Assert(got == 1, "v5-expiry-at-the-deadline-is-the-smallest-present-value")
			zzrt.Cover("v5-at-deadline")
		}
	} else {
		zzrt.Assert(pub.Properties == nil || pub.Properties.MessageExpiry == nil, "v3-no-expiry-property")
		zzrt.Cover("v3-checked")
	}
}
