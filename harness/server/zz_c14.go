package server

// C14 — hook decisions are enforced.

import (
	"context"
	"errors"

	gmqtt "github.com/DrmagicE/gmqtt"
	"github.com/DrmagicE/gmqtt/persistence/queue"
	"github.com/DrmagicE/gmqtt/persistence/subscription"
	submem "github.com/DrmagicE/gmqtt/persistence/subscription/mem"
	"github.com/DrmagicE/gmqtt/pkg/codes"
	"github.com/DrmagicE/gmqtt/pkg/packets"
	"github.com/DrmagicE/gmqtt/zzrt"
)

// ZZ_C14_Connect: an authentication hook's verdict decides: rejected => one failing
// CONNACK and no registration (hence no session / subscription / will state, which are
// only created behind register); accepted => registered once, CONNACK success.
func ZZ_C14_Connect() {
	srv := defaultServer()
	srv.config.MQTT.TopicAliasMax = 4
	var verdict error
	switch zzrt.Choice(3) {
	case 1:
		code := zzrt.Byte()
		zzrt.Assume(code >= 0x80)
		verdict = &codes.Error{Code: code}
	case 2:
		verdict = errors.New("no")
	}
	hookCalls := 0
	srv.hooks.OnBasicAuth = func(ctx context.Context, cl Client, req *ConnectRequest) error {
		hookCalls++
		return verdict
	}
	c, _ := srv.newClient(&zzConn{})
	registered := 0
	c.register = func(connect *packets.Connect, client *client) (bool, error) { registered++; return false, nil }
	c.unregister = func(*client) {}
	var conn *packets.Connect
	v5 := zzrt.ConcreteBool(zzrt.Bool())
	if v5 {
		conn = zzV5Connect("c1")
	} else {
		conn = zzV3Connect("c1")
	}
	conn.WillFlag = zzrt.ConcreteBool(zzrt.Bool())
	if conn.WillFlag {
		conn.WillTopic, conn.WillMsg = []byte("w"), []byte("x")
		conn.WillProperties = &packets.Properties{}
	}
	c.in <- conn
	ok := c.connectWithTimeOut()
	out := zzDrain(c)
	zzrt.Assert(hookCalls == 1, "auth-hook-fires-exactly-once")
	zzrt.Assert(len(out) == 1, "exactly-one-connack")
	ack, isAck := out[0].(*packets.Connack)
	zzrt.Assert(isAck, "answer-is-connack")
	if verdict != nil {
		zzrt.Assert(!ok && registered == 0, "rejected-connect-is-not-registered")
		if v5 {
			zzrt.Assert(ack.Code >= 0x80, "rejected-connect-gets-failing-connack")
			if ce, isCE := verdict.(*codes.Error); isCE {
				zzrt.Assert(ack.Code == ce.Code, "v5-connack-carries-the-hook-reason-code")
			}
		} else {
			zzrt.Assert(ack.Code != 0, "rejected-connect-gets-failing-connack")
		}
		zzrt.Assert(c.err != nil, "rejected-connection-is-closed-with-error")
		zzrt.Cover("rejected")
	} else {
		zzrt.Assert(ok && registered == 1, "accepted-connect-registered-once")
		zzrt.Assert(ack.Code == 0, "accepted-connect-gets-success-connack")
		zzrt.Cover("accepted")
	}
}

// ZZ_C14_Subscribe: per-topic rejection / QoS downgrade by OnSubscribe is what SUBACK
// reports and what is (not) installed.
func ZZ_C14_Subscribe() {
	srv := defaultServer()
	db := submem.NewStore()
	srv.subscriptionsDB = db
	ver := packets.Version311
	if zzrt.ConcreteBool(zzrt.Bool()) {
		ver = packets.Version5
	}
	c := &client{server: srv, version: ver, rwc: &zzConn{}, queueStore: &zzRecQueue{}, out: make(chan packets.Packet, 8), close: make(chan struct{}),
		opts: &ClientOptions{ClientID: "c1", SharedSubAvailable: true, WildcardSubAvailable: true, SubIDAvailable: true}}
	names := []string{"a", "b/+"}
	type dec struct {
		reject bool
		code   byte
		qos    byte
	}
	decs := map[string]*dec{}
	var global error
	if zzrt.Choice(3) == 0 {
		code := zzrt.Byte()
		zzrt.Assume(code >= 0x80)
		global = &codes.Error{Code: code}
	}
	req := make([]byte, 2)
	for i, n := range names {
		d := &dec{}
		req[i] = byte(zzrt.Choice(3))
		if zzrt.ConcreteBool(zzrt.Bool()) {
			d.reject = true
			d.code = zzrt.Byte()
			zzrt.Assume(d.code >= 0x80)
		}
		d.qos = byte(zzrt.Choice(int(req[i]) + 1)) // possibly downgraded
		decs[n] = d
	}
	calls := 0
	srv.hooks.OnSubscribe = func(ctx context.Context, cl Client, r *SubscribeRequest) error {
		calls++
		if global != nil {
			return global
		}
		for n, d := range decs {
			s := r.Subscriptions[n]
			s.Sub.QoS = d.qos
			if d.reject {
				s.Error = &codes.Error{Code: d.code}
			}
		}
		return nil
	}
	sub := &packets.Subscribe{Version: ver, PacketID: 5, Properties: &packets.Properties{}}
	for i, n := range names {
		sub.Topics = append(sub.Topics, packets.Topic{Name: n, SubOptions: packets.SubOptions{Qos: req[i]}})
	}
	// retained messages that the new subscriptions would replay, stored at the highest QoS
	srv.retainedDB.AddOrReplace(&gmqtt.Message{Topic: "a", QoS: 2, Retained: true, Payload: []byte("ra")})
	srv.retainedDB.AddOrReplace(&gmqtt.Message{Topic: "b/x", QoS: 2, Retained: true, Payload: []byte("rb")})
	err := c.subscribeHandler(sub)
	zzrt.Assert(err == nil, "subscribe-handled")
	zzrt.Assert(calls == 1, "subscribe-hook-fires-exactly-once")
	replayed := map[string]*gmqtt.Message{}
	for _, e := range c.queueStore.(*zzRecQueue).added {
		m := e.MessageWithID.(*queue.Publish).Message
		replayed[m.Topic] = m
	}
	replayTopic := map[string]string{"a": "a", "b/+": "b/x"}
	out := zzDrain(c)
	zzrt.Assert(len(out) == 1, "one-suback")
	ack := out[0].(*packets.Suback)
	zzrt.Assert(ack.PacketID == 5 && len(ack.Payload) == 2, "suback-shape")
	for i, n := range names {
		d := decs[n]
		stored := subscription.Get(db, n, subscription.TypeAll)["c1"]
		rejected := global != nil || d.reject
		if rejected {
			zzrt.Assert(ack.Payload[i] >= 0x80, "rejected-subscription-reported-as-failure")
			if ver == packets.Version5 {
				want := d.code
				if global != nil {
					want = global.(*codes.Error).Code
				}
				zzrt.Assert(ack.Payload[i] == want, "v5-suback-carries-the-hook-reason-code")
			} else {
				zzrt.Assert(ack.Payload[i] == 0x80, "v3-suback-failure-is-0x80")
			}
			zzrt.Assert(len(stored) == 0, "rejected-subscription-not-installed")
			zzrt.Assert(replayed[replayTopic[n]] == nil, "rejected-subscription-replays-no-retained-message")
			zzrt.Cover("rejected")
		} else {
			zzrt.Assert(ack.Payload[i] == d.qos, "suback-reports-the-granted-possibly-downgraded-qos")
			zzrt.Assert(len(stored) == 1 && stored[0].QoS == d.qos, "installed-with-the-granted-qos")
			rm := replayed[replayTopic[n]]
			zzrt.Assert(rm != nil, "installed-subscription-replays-the-retained-message")
			if rm != nil {
				zzrt.Assert(rm.QoS == d.qos, "retained-replay-capped-by-the-granted-qos")
			}
			zzrt.Cover("installed")
		}
	}
}

// ZZ_C14_MsgArrived: a PUBLISH rejected or dropped by OnMsgArrived is delivered to
// nobody and changes no retained message; a rewritten one is what subscribers and the
// retained store see.
func ZZ_C14_MsgArrived() {
	srv := defaultServer()
	ver := packets.Version311
	if zzrt.ConcreteBool(zzrt.Bool()) {
		ver = packets.Version5
	}
	c := &client{server: srv, version: ver, out: make(chan packets.Packet, 8), close: make(chan struct{}), unackStore: &zzUnack{},
		opts: &ClientOptions{ClientID: "c1", RetainAvailable: true}}
	var delivered []*gmqtt.Message
	c.deliverMessage = func(src string, m *gmqtt.Message, o subscription.IterationOptions) bool {
		delivered = append(delivered, m)
		return true
	}
	srv.retainedDB.AddOrReplace(&gmqtt.Message{Topic: "t", Retained: true, Payload: []byte("old")})
	behaviour := zzrt.Choice(4) // accept, reject, drop, rewrite
	calls := 0
	srv.hooks.OnMsgArrived = func(ctx context.Context, cl Client, req *MsgArrivedRequest) error {
		calls++
		switch behaviour {
		case 1:
			return &codes.Error{Code: codes.NotAuthorized}
		case 2:
			req.Drop()
		case 3:
			m := req.Message.Copy()
			m.Topic = "t2"
			m.Payload = []byte("rewritten")
			req.Message = m
			req.IterationOptions.TopicName = "t2"
		}
		return nil
	}
	retain := zzrt.ConcreteBool(zzrt.Bool())
	qos := uint8(zzrt.Choice(3))
	zzrt.Observe("behaviour", behaviour)
	zzrt.Observe("retain", retain)
	err := c.publishHandler(&packets.Publish{Version: ver, Qos: qos, PacketID: 3, Retain: retain, TopicName: []byte("t"), Payload: []byte("new"), Properties: &packets.Properties{}})
	zzrt.Assert(err == nil, "publish-handled")
	zzrt.Assert(calls == 1, "msg-arrived-hook-fires-exactly-once")
	rt := srv.retainedDB.GetRetainedMessage("t")
	rt2 := srv.retainedDB.GetRetainedMessage("t2")
	switch behaviour {
	case 0:
		zzrt.Assert(len(delivered) == 1 && delivered[0].Topic == "t" && string(delivered[0].Payload) == "new", "accepted-message-delivered")
		if retain {
			zzrt.Assert(rt != nil && string(rt.Payload) == "new", "accepted-retained-message-stored")
		} else {
			zzrt.Assert(rt != nil && string(rt.Payload) == "old", "non-retained-message-leaves-store")
		}
		zzrt.Cover("accepted")
	case 1, 2:
		zzrt.Assert(len(delivered) == 0, "rejected-or-dropped-message-delivered-to-nobody")
		zzrt.Assert(rt != nil && string(rt.Payload) == "old" && rt2 == nil, "rejected-or-dropped-message-changes-no-retained-message")
		zzrt.Cover("refused")
	case 3:
		zzrt.Assert(len(delivered) == 1 && delivered[0].Topic == "t2" && string(delivered[0].Payload) == "rewritten", "rewritten-message-is-what-subscribers-see")
		if retain {
			zzrt.Assert(rt2 != nil && string(rt2.Payload) == "rewritten", "rewritten-message-is-what-the-retained-store-sees")
			zzrt.Assert(rt != nil && string(rt.Payload) == "old", "original-topic-retained-message-untouched-by-rewrite")
		}
		zzrt.Cover("rewritten")
	}
}

// ZZ_C14_Will: a will edited, replaced or dropped by OnWillPublish is what is (not) published.
func ZZ_C14_Will() {
	srv := defaultServer()
	db := submem.NewStore()
	srv.subscriptionsDB = db
	srv.config.MQTT.QueueQos0Msg = true
	q := &zzRecQueue{}
	srv.queueStore["s1"] = q
	srv.clients["s1"] = &client{opts: &ClientOptions{ClientID: "s1"}}
	db.Subscribe("s1", &gmqtt.Subscription{TopicFilter: "w", QoS: 2}, &gmqtt.Subscription{TopicFilter: "w2", QoS: 2})
	behaviour := zzrt.Choice(4) // keep, edit in place, replace, drop
	calls, published := 0, 0
	srv.hooks.OnWillPublish = func(ctx context.Context, id string, req *WillMsgRequest) {
		calls++
		switch behaviour {
		case 1:
			req.Message.Payload = []byte("edited")
		case 2:
			req.Message = &gmqtt.Message{Topic: "w2", QoS: 1, Payload: []byte("replaced")}
			req.IterationOptions = defaultIterateOptions("w2")
		case 3:
			req.Drop()
		}
	}
	var told *gmqtt.Message
	srv.hooks.OnWillPublished = func(ctx context.Context, id string, m *gmqtt.Message) { published++; told = m }
	zzrt.Observe("behaviour", behaviour)
	srv.sendWillLocked(&gmqtt.Message{Topic: "w", QoS: 1, Payload: []byte("orig")}, "c1")
	zzrt.Assert(calls == 1, "will-hook-fires-exactly-once")
	var got []*gmqtt.Message
	for _, e := range q.added {
		got = append(got, e.MessageWithID.(*queue.Publish).Message)
	}
	switch behaviour {
	case 0:
		zzrt.Assert(len(got) == 1 && got[0].Topic == "w" && string(got[0].Payload) == "orig", "kept-will-published")
	case 1:
		zzrt.Assert(len(got) == 1 && got[0].Topic == "w" && string(got[0].Payload) == "edited", "edited-will-is-what-is-published")
	case 2:
		zzrt.Assert(len(got) == 1 && got[0].Topic == "w2" && string(got[0].Payload) == "replaced", "replaced-will-is-what-is-published")
		zzrt.Cover("replaced")
	case 3:
		zzrt.Assert(len(got) == 0 && published == 0, "dropped-will-not-published")
		zzrt.Cover("dropped")
	}
	if behaviour != 3 {
		zzrt.Assert(published == 1, "will-published-hook-fires-once")
		// the notification is about the will that was published, not the one registered
		zzrt.Assert(told != nil && len(got) == 1 && told.Topic == got[0].Topic && string(told.Payload) == string(got[0].Payload), "will-published-hook-is-told-the-published-will")
	}
}

// ZZ_C14_EnhancedAuth: v5 CONNECT with an authentication method; OnEnhancedAuth and then
// up to R rounds of OnAuth each accept, ask to continue, or reject. Every "continue" is
// answered by one AUTH packet, the first final verdict ends the exchange: rejected =>
// one failing CONNACK and no registration; accepted => registered once, CONNACK success.
func ZZ_C14_EnhancedAuth() {
	R := zzrt.Param("R")
	srv := defaultServer()
	var verdicts []int // 0 accept, 1 continue, 2 reject with a reason code, 3 reject with a plain error
	for i := 0; i <= R; i++ {
		n := 4
		if i == R {
			n = 3
		}
		v := zzrt.Choice(n)
		if i == R && v >= 1 {
			v++ // the last round cannot ask to continue
		}
		verdicts = append(verdicts, v)
		if v != 1 {
			break
		}
	}
	code := zzrt.Byte()
	zzrt.Assume(code >= 0x80)
	reject := func(v int) error {
		if v == 2 {
			return &codes.Error{Code: code}
		}
		return errors.New("no")
	}
	calls := 0
	onAuth := func(ctx context.Context, cl Client, req *AuthRequest) (*AuthResponse, error) {
		v := verdicts[calls]
		calls++
		switch v {
		case 0:
			return &AuthResponse{}, nil
		case 1:
			return &AuthResponse{Continue: true, AuthData: []byte{byte(calls)}}, nil
		}
		return nil, reject(v)
	}
	basic := 0
	srv.hooks.OnBasicAuth = func(ctx context.Context, cl Client, req *ConnectRequest) error { basic++; return nil }
	srv.hooks.OnEnhancedAuth = func(ctx context.Context, cl Client, req *ConnectRequest) (*EnhancedAuthResponse, error) {
		v := verdicts[calls]
		calls++
		switch v {
		case 0:
			return &EnhancedAuthResponse{}, nil
		case 1:
			return &EnhancedAuthResponse{Continue: true, OnAuth: onAuth, AuthData: []byte{byte(calls)}}, nil
		}
		return nil, reject(v)
	}
	c, _ := srv.newClient(&zzConn{})
	registered := 0
	c.register = func(connect *packets.Connect, client *client) (bool, error) { registered++; return false, nil }
	c.unregister = func(*client) {}
	conn := zzV5Connect("c1")
	conn.Properties.AuthMethod = []byte("m")
	c.in <- conn
	for i := 1; i < len(verdicts); i++ {
		c.in <- &packets.Auth{FixHeader: &packets.FixHeader{PacketType: packets.AUTH}, Code: codes.ContinueAuthentication, Properties: &packets.Properties{AuthMethod: []byte("m")}}
	}
	ok := c.connectWithTimeOut()
	out := zzDrain(c)
	final := verdicts[len(verdicts)-1]
	zzrt.Observe("rounds", len(verdicts))
	zzrt.Observe("final", final)
	zzrt.Assert(basic == 0, "enhanced-auth-does-not-consult-basic-auth")
	zzrt.Assert(calls == len(verdicts), "each-authentication-step-consults-its-hook-once")
	zzrt.Assert(len(out) == len(verdicts), "one-answer-per-authentication-step")
	for i := 0; i+1 < len(out); i++ {
		au, isAuth := out[i].(*packets.Auth)
		zzrt.Assert(isAuth && au.Code == codes.ContinueAuthentication, "continue-verdict-answered-by-auth-packet")
		zzrt.Assert(len(au.Properties.AuthData) == 1 && au.Properties.AuthData[0] == byte(i+1), "auth-packet-carries-the-hook-data")
	}
	ack, isAck := out[len(out)-1].(*packets.Connack)
	zzrt.Assert(isAck, "final-answer-is-connack")
	if final == 0 {
		zzrt.Assert(ok && registered == 1, "accepted-connect-registered-once")
		zzrt.Assert(ack.Code == 0, "accepted-connect-gets-success-connack")
		zzrt.Cover("enhanced-accepted")
	} else {
		zzrt.Assert(!ok && registered == 0, "rejected-connect-is-not-registered")
		zzrt.Assert(ack.Code >= 0x80, "rejected-connect-gets-failing-connack")
		if final == 2 {
			zzrt.Assert(ack.Code == code, "v5-connack-carries-the-hook-reason-code")
		}
		zzrt.Assert(c.err != nil, "rejected-connection-is-closed-with-error")
		zzrt.Cover("enhanced-rejected")
	}
	if len(verdicts) > 1 {
		zzrt.Cover("multi-step")
	}
}

// ZZ_C14_Unsubscribe: the OnUnsubscribe hook may reject an unsubscription (globally or
// per topic) or rewrite its topic; what is removed from the subscription store, what
// UNSUBACK reports and what OnUnsubscribed is told all follow the hook's decision.
func ZZ_C14_Unsubscribe() {
	srv := defaultServer()
	db := submem.NewStore()
	srv.subscriptionsDB = db
	ver := packets.Version311
	if zzrt.ConcreteBool(zzrt.Bool()) {
		ver = packets.Version5
	}
	c := &client{server: srv, version: ver, rwc: &zzConn{}, queueStore: &zzRecQueue{}, out: make(chan packets.Packet, 8), close: make(chan struct{}),
		opts: &ClientOptions{ClientID: "c1"}}
	// installed: the two names a client may send and the name a hook may rewrite to
	for _, f := range []string{"a", "b/+", "t/a"} {
		db.Subscribe("c1", &gmqtt.Subscription{TopicFilter: f, QoS: 1})
	}
	names := []string{"a", "b/+"}
	var global error
	if zzrt.Choice(3) == 0 {
		code := zzrt.Byte()
		zzrt.Assume(code >= 0x80)
		global = &codes.Error{Code: code}
	}
	type dec struct {
		reject  bool
		code    byte
		rewrite bool
	}
	decs := map[string]*dec{}
	for _, n := range names {
		d := &dec{}
		switch zzrt.Choice(3) {
		case 1:
			d.reject = true
			d.code = zzrt.Byte()
			zzrt.Assume(d.code >= 0x80)
		case 2:
			d.rewrite = n == "a" // "a" is rewritten to "t/a"
		}
		decs[n] = d
	}
	calls := 0
	srv.hooks.OnUnsubscribe = func(ctx context.Context, cl Client, r *UnsubscribeRequest) error {
		calls++
		if global != nil {
			return global
		}
		for n, d := range decs {
			if d.reject {
				r.Reject(n, &codes.Error{Code: d.code})
			}
			if d.rewrite {
				r.Unsubs[n].TopicName = "t/" + n
			}
		}
		return nil
	}
	var told []string
	srv.hooks.OnUnsubscribed = func(ctx context.Context, cl Client, topic string) { told = append(told, topic) }
	c.unsubscribeHandler(&packets.Unsubscribe{Version: ver, PacketID: 6, Topics: names, Properties: &packets.Properties{}})
	zzrt.Assert(calls == 1, "unsubscribe-hook-fires-exactly-once")
	out := zzDrain(c)
	zzrt.Assert(len(out) == 1, "one-unsuback")
	ack := out[0].(*packets.Unsuback)
	zzrt.Assert(ack.PacketID == 6, "unsuback-carries-the-packet-identifier")
	has := func(f string) bool { return len(subscription.Get(db, f, subscription.TypeAll)["c1"]) == 1 }
	for i, n := range names {
		d := decs[n]
		target := n
		if d.rewrite && global == nil {
			target = "t/" + n
		}
		rejected := global != nil || d.reject
		if rejected {
			zzrt.Assert(has(n), "rejected-unsubscription-removes-nothing")
			if ver == packets.Version5 {
				want := d.code
				if global != nil {
					want = global.(*codes.Error).Code
				}
				zzrt.Assert(len(ack.Payload) == 2 && ack.Payload[i] == want, "v5-unsuback-carries-the-hook-reason-code")
			}
			zzrt.Cover("rejected")
		} else {
			zzrt.Assert(!has(target), "the-topic-the-hook-decided-on-is-removed")
			if target != n {
				zzrt.Assert(has(n), "a-rewritten-unsubscription-leaves-the-requested-name-alone")
				zzrt.Cover("rewritten")
			}
			if ver == packets.Version5 {
				zzrt.Assert(len(ack.Payload) == 2 && ack.Payload[i] == codes.Success, "v5-unsuback-reports-success")
			}
			toldIt := false
			for _, t := range told {
				if t == target {
					toldIt = true
				}
			}
			zzrt.Assert(toldIt, "unsubscribed-hook-told-the-removed-topic")
			zzrt.Cover("removed")
		}
	}
	if !(decs["a"].rewrite && global == nil && !decs["a"].reject) {
		zzrt.Assert(has("t/a"), "unrelated-subscription-untouched")
	}
}
