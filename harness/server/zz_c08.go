package server

// C08 — the will message is published exactly when, and only when, it should be.

import (
	"time"

	gmqtt "github.com/DrmagicE/gmqtt"
	"github.com/DrmagicE/gmqtt/persistence/queue"
	sessredis "github.com/DrmagicE/gmqtt/persistence/session/redis"
	"github.com/DrmagicE/gmqtt/pkg/codes"
	"github.com/DrmagicE/gmqtt/pkg/packets"
	"github.com/DrmagicE/gmqtt/zzredis"
	"github.com/DrmagicE/gmqtt/zzrt"
)

func zzWillCopies(q *zzRecQueue) []*gmqtt.Message {
	var out []*gmqtt.Message
	for _, e := range q.added {
		m := e.MessageWithID.(*queue.Publish).Message
		if m.Topic == "w" {
			out = append(out, m)
		}
	}
	return out
}

// ZZ_C08_Will: CONNECT with a will, the connection ends in one of the ways a
// connection can end, then up to EV events (time passing, re-attach, clean reconnect,
// expiry check, administrative termination).  Ghost: the specification's will state
// machine with deadline min(will delay, session expiry) after the disconnect.
func ZZ_C08_Will() {
	EV := zzrt.Param("EV")
	srv, pers := zzLifecycleServer()
	srv.config.MQTT.SessionExpiry = 1 << 21 * time.Second
	// session store (it holds the will): memory, or the real redis session store
	if zzrt.Choice(zzrt.Param("BACKENDS")) == 1 {
		srv.sessionStore = sessredis.New(zzredis.NewPool(zzredis.NewStore()))
		srv.clientService.sessionStore = srv.sessionStore
		zzrt.Cover("redis-session-store")
	}
	// an independent subscriber that keeps the RETAIN flag as published
	sq := &zzRecQueue{}
	srv.queueStore["s1"] = sq
	srv.clients["s1"] = &client{opts: &ClientOptions{ClientID: "s1"}}
	srv.subscriptionsDB.Subscribe("s1", &gmqtt.Subscription{TopicFilter: "w", QoS: 2, RetainAsPublished: true})

	v5 := zzrt.ConcreteBool(zzrt.Bool())
	E := zzrt.Uint32()
	zzrt.Assume(E <= 1<<20)
	var conn *packets.Connect
	var D uint32
	willQoS := uint8(zzrt.Choice(3))
	willRetain := zzrt.ConcreteBool(zzrt.Bool())
	if v5 {
		conn = zzConnectPacket(true, "c1", false, &E)
		if zzrt.ConcreteBool(zzrt.Bool()) {
			D = zzrt.Uint32()
			zzrt.Assume(D <= 1<<20)
			conn.WillProperties.WillDelayInterval = &D
		}
		me := uint32(77)
		pf := byte(1)
		conn.WillProperties.MessageExpiry = &me
		conn.WillProperties.PayloadFormat = &pf
		conn.WillProperties.ContentType = []byte("ct")
		conn.WillProperties.ResponseTopic = []byte("rt")
		conn.WillProperties.CorrelationData = []byte("cd")
		conn.WillProperties.User = []packets.UserProperty{{K: []byte("k"), V: []byte("v")}}
	} else {
		conn = zzConnectPacket(false, "c1", zzrt.ConcreteBool(E == 0), nil)
		srv.config.MQTT.SessionExpiry = time.Duration(E) * time.Second
	}
	conn.WillFlag, conn.WillQos, conn.WillRetain = true, willQoS, willRetain
	conn.WillTopic, conn.WillMsg = []byte("w"), []byte("bye")
	c1, _, ok := zzDial(srv, conn)
	zzrt.Assert(ok, "connect-accepted")
	_ = pers
	zzrt.Assert(len(zzWillCopies(sq)) == 0, "no-will-while-connected")

	// how the connection ends
	suppressed := false
	var dis *packets.Disconnect
	terminatedOnline := false
	switch zzrt.Choice(5) {
	case 4: // the administrator terminates the session while the client is online: the
		// connection is closed and the session ends with it, whatever its expiry
		srv.clientService.TerminateSession("c1")
		terminatedOnline = true
		zzrt.Cover("terminated-online")
	case 0: // socket close / protocol error / keep-alive timeout / take-over: no DISCONNECT
	case 1:
		dis = &packets.Disconnect{Version: conn.Version, Code: codes.Success, Properties: &packets.Properties{}}
		suppressed = true
	case 2:
		if !v5 {
			dis = &packets.Disconnect{Version: conn.Version, Properties: &packets.Properties{}}
			suppressed = true
		} else {
			dis = &packets.Disconnect{Version: conn.Version, Code: codes.DisconnectWithWillMessage, Properties: &packets.Properties{}}
		}
	case 3:
		if !v5 {
			dis = &packets.Disconnect{Version: conn.Version, Properties: &packets.Properties{}}
			suppressed = true
		} else {
			code := zzrt.Byte()
			zzrt.Assume(code >= 0x80)
			dis = &packets.Disconnect{Version: conn.Version, Code: code, Properties: &packets.Properties{}}
		}
	}
	// a v5 DISCONNECT may update the session expiry interval
	if dis != nil && v5 && zzrt.ConcreteBool(zzrt.Bool()) {
		E2 := zzrt.Uint32()
		zzrt.Assume(E2 <= 1<<20)
		dis.Properties.SessionExpiryInterval = &E2
		if zzrt.ConcreteBool(E == 0 && E2 != 0) {
			// raising the expiry from 0 is a protocol error: the DISCONNECT is rejected
			// as a whole, so it neither changes the expiry nor suppresses the will
			suppressed = false
			zzrt.Cover("rejected-disconnect")
		} else {
			E = E2
		}
	}
	t1 := time.Now()
	zzHangUp(c1, dis)
	zzrt.Yield()
	zzrt.Observe("E", E)
	zzrt.Observe("D", D)
	zzrt.Observe("suppressed", suppressed)
	if terminatedOnline {
		E = 0 // the session ended with the connection
	}
	delay := uint32(zzrt.IteInt(D < E, int(D), int(E)))
	deadline := t1.Add(time.Duration(delay) * time.Second)
	const (
		never = iota
		pending
		sent
	)
	state := pending
	if suppressed {
		state = never
	} else if zzrt.ConcreteBool(delay == 0) {
		state = sent
	}
	sessionAlive := zzrt.ConcreteBool(E != 0)
	expiresAt := t1.Add(time.Duration(E) * time.Second)
	check := func(where string) {
		n := len(zzWillCopies(sq))
		switch state {
		case never:
			zzrt.Assert(n == 0, "will-never-published-"+where)
		case pending:
			zzrt.Assert(n == 0, "pending-will-not-published-early-"+where)
		case sent:
			zzrt.Assert(n == 1, "will-published-exactly-once-"+where)
		}
	}
	check("at-disconnect")
	for ev := 0; ev < EV; ev++ {
		switch zzrt.Choice(5) {
		case 0: // time passes
			d := zzrt.Int64()
			zzrt.Assume(d >= 1 && d < 1<<52)
			zzrt.ClockAdvance(time.Duration(d))
			now := time.Now()
			if state == pending && zzrt.ConcreteBool(!now.Before(deadline)) {
				state = sent
			}
		case 1: // the client re-attaches to its session
			if !sessionAlive || zzrt.ConcreteBool(time.Now().After(expiresAt)) {
				continue
			}
			c, ack, ok := zzDial(srv, zzConnectPacket(v5, "c1", false, &E))
			zzrt.Yield()
			zzrt.Assert(ok && ack.SessionPresent, "re-attach-resumes")
			if state == pending {
				state = never // [MQTT-3.1.3-9]
			}
			// stay attached for the rest of the scenario: nothing more can happen to this will
			_ = c
			check("after-re-attach")
			zzrt.Cover("re-attached")
			ev = EV
		case 2: // a new connection discards the session
			c, _, ok := zzDial(srv, zzConnectPacket(v5, "c1", true, &E))
			zzrt.Yield()
			zzrt.Assert(ok, "clean-reconnect-accepted")
			if state == pending {
				state = sent // the session ended
			}
			_ = c
			check("after-clean-reconnect")
			ev = EV
		case 3:
			srv.sessionExpireCheck()
			zzrt.Yield()
			if sessionAlive && zzrt.ConcreteBool(time.Now().After(expiresAt)) {
				sessionAlive = false
				if state == pending {
					state = sent
				}
			}
		case 4:
			srv.clientService.TerminateSession("c1")
			zzrt.Yield()
			if sessionAlive {
				sessionAlive = false
				if state == pending {
					state = sent // the session ended before the delay passed
				}
			}
		}
		check("after-event")
	}
	// whatever is still pending is published once its delay has passed
	zzrt.ClockAdvance((1<<20 + 1) * time.Second)
	if state == pending {
		state = sent
	}
	check("finally")
	if state == sent {
		m := zzWillCopies(sq)[0]
		zzrt.Assert(m.Topic == "w" && string(m.Payload) == "bye" && m.QoS == willQoS, "will-carries-topic-payload-qos")
		zzrt.Assert(m.Retained == willRetain, "will-carries-retain-flag")
		kept := srv.retainedDB.GetRetainedMessage("w")
		zzrt.Assert((kept != nil) == willRetain, "will-with-retain-flag-is-kept-as-retained-message")
		if v5 {
			zzrt.Assert(m.MessageExpiry == 77 && m.PayloadFormat == 1 && m.ContentType == "ct" && m.ResponseTopic == "rt" && string(m.CorrelationData) == "cd" &&
				len(m.UserProperties) == 1 && string(m.UserProperties[0].K) == "k" && string(m.UserProperties[0].V) == "v", "will-carries-properties")
		}
		zzrt.Cover("published")
	} else {
		zzrt.Assert(srv.retainedDB.GetRetainedMessage("w") == nil, "unpublished-will-leaves-no-retained-message")
		zzrt.Cover("not-published")
	}
}
