package server

// C13, inbound Receive Maximum through the whole connection: real serve() (readLoop,
// readHandle, writeLoop, connectWithTimeOut, poll loop) on a scripted byte stream.

import (
	"bytes"
	"io"
	"net"
	"time"

	"github.com/DrmagicE/gmqtt/pkg/codes"
	"github.com/DrmagicE/gmqtt/pkg/packets"
	"github.com/DrmagicE/gmqtt/zzrt"
)

// zzPipeConn: Read delivers the chunks the harness feeds (io.EOF once closed), Write
// records.
type zzPipeConn struct {
	in      chan []byte
	pending []byte
	written []byte
	closed  int
}

func (c *zzPipeConn) Read(p []byte) (int, error) {
	if len(c.pending) == 0 {
		chunk, ok := <-c.in
		if !ok {
			return 0, io.EOF
		}
		c.pending = chunk
	}
	n := copy(p, c.pending)
	c.pending = c.pending[n:]
	return n, nil
}
func (c *zzPipeConn) Write(p []byte) (int, error)        { c.written = append(c.written, p...); return len(p), nil }
func (c *zzPipeConn) Close() error                       { c.closed++; return nil }
func (c *zzPipeConn) LocalAddr() net.Addr                { return zzAddr{} }
func (c *zzPipeConn) RemoteAddr() net.Addr               { return zzAddr{} }
func (c *zzPipeConn) SetDeadline(t time.Time) error      { return nil }
func (c *zzPipeConn) SetReadDeadline(t time.Time) error  { return nil }
func (c *zzPipeConn) SetWriteDeadline(t time.Time) error { return nil }

func zzEncode(p packets.Packet) []byte {
	var b bytes.Buffer
	if err := p.Pack(&b); err != nil {
		zzrt.Fail("harness-packet-encodes")
	}
	return b.Bytes()
}

// zzDecodeAll parses what the broker wrote since offset off.
func zzDecodeAll(conn *zzPipeConn, off *int) []packets.Packet {
	var out []packets.Packet
	rd := packets.NewReader(bytes.NewReader(conn.written[*off:]))
	rd.SetVersion(packets.Version5)
	for {
		p, err := rd.ReadPacket()
		if err != nil {
			break
		}
		out = append(out, p)
	}
	*off = len(conn.written)
	return out
}

// ZZ_C13_InboundQuota: a v5 client that never has more than the advertised Receive
// Maximum of QoS>0 PUBLISH packets outstanding (no PUBACK / PUBCOMP / failing PUBREC
// yet) is never disconnected for it; the PUBLISH that exceeds it is answered with
// DISCONNECT 0x93 and nothing after it is processed.
func ZZ_C13_InboundQuota() {
	K := zzrt.Param("K")
	srv, pers := zzLifecycleServer()
	pers.blocking = true
	R := uint16(1 + zzrt.Choice(2))
	srv.config.MQTT.ReceiveMax = R
	conn := &zzPipeConn{in: make(chan []byte, 16)}
	c, _ := srv.newClient(conn)
	done := false
	go func() { c.serve(); done = true }()
	cp := zzV5Connect("c1")
	if zzrt.Choice(2) == 1 {
		// what the client declares limits the other direction only
		one := uint16(1)
		cp.Properties.ReceiveMaximum = &one
	}
	conn.in <- zzEncode(cp)
	zzrt.Yield()
	off := 0
	first := zzDecodeAll(conn, &off)
	zzrt.Assert(len(first) == 1, "one-connack")
	ack, isAck := first[0].(*packets.Connack)
	zzrt.Assert(isAck && ack.Code == codes.Success && ack.Properties != nil && ack.Properties.ReceiveMaximum != nil && *ack.Properties.ReceiveMaximum == R, "connack-advertises-the-configured-receive-maximum")
	outstanding := 0
	var awaitingRel []packets.PacketID
	nextID := packets.PacketID(1)
	kicked := false
	for step := 0; step < K && !kicked; step++ {
		switch zzrt.Choice(3) {
		case 0, 1: // PUBLISH QoS 1 or 2
			q := byte(1 + zzrt.Choice(2))
			id := nextID
			nextID++
			exceed := outstanding == int(R)
			conn.in <- zzEncode(&packets.Publish{Version: packets.Version5, FixHeader: &packets.FixHeader{PacketType: packets.PUBLISH, Flags: q << 1}, Qos: q, PacketID: id,
				TopicName: []byte("t"), Payload: []byte{1}, Properties: &packets.Properties{}})
			zzrt.Yield()
			got := zzDecodeAll(conn, &off)
			if exceed {
				kicked = true
				dis := false
				for _, p := range got {
					if d, ok := p.(*packets.Disconnect); ok {
						dis = true
						zzrt.Assert(d.Code == codes.RecvMaxExceeded, "exceeding-receive-maximum-is-answered-with-0x93")
					}
					_, isAck := p.(*packets.Puback)
					_, isRec := p.(*packets.Pubrec)
					zzrt.Assert(!isAck && !isRec, "the-exceeding-publish-is-not-processed")
				}
				zzrt.Assert(dis, "exceeding-receive-maximum-is-answered-with-0x93")
				zzrt.Cover("exceeded")
				break
			}
			zzrt.Assert(len(got) == 1, "one-answer-per-publish")
			switch a := got[0].(type) {
			case *packets.Puback:
				zzrt.Assert(q == 1 && a.PacketID == id, "qos1-answered-with-puback")
			case *packets.Pubrec:
				zzrt.Assert(q == 2 && a.PacketID == id, "qos2-answered-with-pubrec")
				outstanding++
				awaitingRel = append(awaitingRel, id)
			default:
				zzrt.Fail("client-within-the-advertised-limits-is-not-disconnected")
			}
		case 2: // PUBREL for the oldest open QoS 2 exchange
			if len(awaitingRel) == 0 {
				zzrt.Assume(false)
			}
			id := awaitingRel[0]
			awaitingRel = awaitingRel[1:]
			conn.in <- zzEncode(&packets.Pubrel{FixHeader: &packets.FixHeader{PacketType: packets.PUBREL, Flags: 2}, PacketID: id, Properties: &packets.Properties{}})
			zzrt.Yield()
			got := zzDecodeAll(conn, &off)
			zzrt.Assert(len(got) == 1, "one-answer-per-pubrel")
			comp, ok := got[0].(*packets.Pubcomp)
			zzrt.Assert(ok && comp.PacketID == id, "pubrel-answered-with-pubcomp")
			outstanding--
		}
		if !kicked {
			zzrt.Assert(!done && conn.closed == 0, "client-within-the-advertised-limits-is-not-disconnected")
		}
	}
	zzrt.Observe("outstanding", outstanding)
	// the connection ends
	close(conn.in)
	zzrt.Yield()
	zzrt.Assert(done, "serve-returns-once-the-connection-is-over")
	zzrt.Cover("quota-done")
}
