//go:build zzsym

package server

// Symbolic-mode model hooks for harnesses of this package that use a redis store: the
// redigo pool / Scan / Int are replaced by the zzredis model (natively the real redigo
// talks RESP to the same command table).

import (
	redigo "github.com/gomodule/redigo/redis"

	"github.com/DrmagicE/gmqtt/zzredis"
)

func ZZM_poolGet(p *redigo.Pool) redigo.Conn { return zzredis.Get(p) }
func ZZM_poolClose(p *redigo.Pool) error     { return zzredis.ClosePool(p) }
func ZZM_redisScan(src []interface{}, dest ...interface{}) ([]interface{}, error) {
	return zzredis.Scan(src, dest...)
}
func ZZM_redisInt(reply interface{}, err error) (int, error) { return zzredis.IntReply(reply, err) }
