package server

// C13 — limits negotiated at CONNECT hold for every validator-accepted configuration.

import (
	gmqtt "github.com/DrmagicE/gmqtt"
	"github.com/DrmagicE/gmqtt/persistence/subscription"
	"github.com/DrmagicE/gmqtt/pkg/codes"
	"github.com/DrmagicE/gmqtt/pkg/packets"
	"github.com/DrmagicE/gmqtt/zzrt"
)

// zzSymbolicMQTTConfig draws the limits symbolically and assumes only that the real
// validator accepts them.
func zzSymbolicMQTTConfig(srv *server) {
	m := &srv.config.MQTT
	m.ReceiveMax = zzrt.Uint16()
	m.TopicAliasMax = zzrt.Uint16()
	m.MaxPacketSize = zzrt.Uint32()
	m.MaxInflight = zzrt.Uint16()
	m.MaxQueuedMsg = zzrt.IntRange(0, 1<<20)
	m.MaximumQoS = zzrt.Byte()
	zzrt.Assume(m.Validate() == nil)
}

// ZZ_C13_AliasIn: inbound topic aliases between 1 and the advertised Topic Alias
// Maximum are accepted and resolve to the last bound topic; larger ones get 0x94; no
// validator-accepted configuration crashes the handler.
func ZZ_C13_AliasIn() {
	srv := defaultServer()
	zzSymbolicMQTTConfig(srv)
	m := &srv.config.MQTT
	// table sizes are concretised by forking: keep the limits at the small / extreme
	// ends of the 16-bit range (all relations between alias, limit and size are preserved)
	zzrt.Assume(zzrt.Or(m.ReceiveMax <= 3, m.ReceiveMax >= 65534))
	zzrt.Assume(zzrt.Or(m.TopicAliasMax <= 3, m.TopicAliasMax == 65535))
	c, ok := zzConnect(srv, zzV5Connect("c1"))
	zzrt.Assert(ok, "connect-accepted")
	out := zzDrain(c)
	zzrt.Assert(len(out) == 1, "one-connack")
	connack := out[0].(*packets.Connack)
	adv := *connack.Properties.TopicAliasMaximum
	zzrt.Assert(adv == m.TopicAliasMax, "connack-advertises-configured-alias-max")
	var delivered []string
	c.deliverMessage = func(src string, msg *gmqtt.Message, o subscription.IterationOptions) bool {
		delivered = append(delivered, msg.Topic)
		return true
	}
	a := zzrt.Uint16()
	zzrt.Assume(a >= 1)
	zzrt.Observe("alias", a)
	zzrt.Observe("aliasmax", adv)
	zzrt.Observe("recvmax", m.ReceiveMax)
	bind := zzrt.ConcreteBool(zzrt.Bool())
	if adv == 65535 {
		bind = false // a 65536-entry table is only read, not written (writes fork per index)
	}
	mk := func(topic string) *packets.Publish {
		al := a
		return &packets.Publish{Version: packets.Version5, FixHeader: &packets.FixHeader{PacketType: packets.PUBLISH}, Qos: 0, TopicName: []byte(topic), Properties: &packets.Properties{TopicAlias: &al}}
	}
	if !bind {
		// alias used without a topic and never bound on this connection
		err := c.publishHandler(mk(""))
		zzrt.Assert(err != nil, "unbound-alias-is-an-error")
		if zzrt.ConcreteBool(a > adv) {
			zzrt.Assert(err.Code == codes.TopicAliasInvalid, "alias-above-max-rejected-0x94")
			zzrt.Cover("above-max")
		}
		zzrt.Cover("unbound")
		return
	}
	err := c.publishHandler(mk("t0"))
	if zzrt.ConcreteBool(a > adv) {
		zzrt.Assert(err != nil && err.Code == codes.TopicAliasInvalid, "alias-above-max-rejected-0x94")
		zzrt.Cover("above-max")
		return
	}
	zzrt.Assert(err == nil, "alias-within-advertised-max-accepted")
	zzrt.Assert(c.publishHandler(mk("t1")) == nil, "alias-rebind-accepted")
	zzrt.Assert(c.publishHandler(mk("")) == nil, "bound-alias-resolves")
	zzrt.Assert(len(delivered) == 3 && delivered[0] == "t0" && delivered[1] == "t1" && delivered[2] == "t1", "alias-resolves-to-last-bound-topic")
	zzrt.Cover("bound")
}

// ZZ_C13_Quota: one step from an arbitrary quota state (invariant: quota + outstanding
// == Receive Maximum).  A QoS>0 PUBLISH is refused with 0x93 exactly when the number
// of unanswered ones already equals Receive Maximum.
func ZZ_C13_Quota() {
	R := zzrt.Uint16()
	zzrt.Assume(R >= 1)
	q := zzrt.Uint16()
	zzrt.Assume(q <= R)
	c := &client{version: packets.Version5, opts: &ClientOptions{ReceiveMax: R}, serverReceiveMaximumQuota: q}
	zzrt.Observe("R", R)
	zzrt.Observe("quota", q)
	outstanding := R - q
	if zzrt.Choice(2) == 0 {
		err := c.tryDecServerQuota()
		zzrt.Assert((err != nil) == (outstanding == R), "refused-iff-receive-maximum-exceeded")
		if err != nil {
			ce, ok := err.(*codes.Error)
			zzrt.Assert(ok && ce.Code == codes.RecvMaxExceeded, "refusal-is-0x93")
			zzrt.Cover("refused")
		} else {
			zzrt.Assert(c.serverReceiveMaximumQuota == q-1, "quota-decremented")
			zzrt.Cover("admitted")
		}
	} else {
		c.addServerQuota()
		zzrt.Assert(zzrt.Implies(outstanding > 0, c.serverReceiveMaximumQuota == q+1), "quota-restored-on-ack")
		zzrt.Assert(zzrt.Implies(outstanding == 0, c.serverReceiveMaximumQuota == q), "spurious-ack-does-not-exceed")
		zzrt.Cover("ack")
	}
	zzrt.Assert(c.serverReceiveMaximumQuota <= R, "quota-never-exceeds-receive-maximum")
}

type zzAliasMgr struct {
	alias uint16
	exist bool
}

func (m *zzAliasMgr) Check(p *packets.Publish) (uint16, bool) { return m.alias, m.exist }

// ZZ_C13_WriteSite: one iteration of the real writeLoop for one outbound packet: the
// receive-maximum quota is restored exactly on PUBACK / PUBCOMP / failing PUBREC (v5),
// and an outbound PUBLISH keeps its topic unless the alias manager says the alias is
// already known to the client.
func ZZ_C13_WriteSite() {
	srv := defaultServer()
	srv.statsManager = newStatsManager(zzSubStats{})
	c, _ := srv.newClient(&zzConn{})
	ver := packets.Version311
	if zzrt.ConcreteBool(zzrt.Bool()) {
		ver = packets.Version5
	}
	c.version = ver
	c.packetWriter = packets.NewWriter(c.bufw)
	R := zzrt.Uint16()
	q := zzrt.Uint16()
	zzrt.Assume(R >= 1 && q < R)
	c.opts.ReceiveMax, c.serverReceiveMaximumQuota = R, q
	c.opts.ClientID = "c1"
	c.opts.ClientTopicAliasMax = zzrt.Uint16()
	mgr := &zzAliasMgr{alias: zzrt.Uint16(), exist: zzrt.Bool()}
	zzrt.Assume(zzrt.Implies(mgr.exist, mgr.alias != 0))
	c.topicAliasManager = mgr
	kind := zzrt.Choice(5)
	code := zzrt.Byte()
	var p packets.Packet
	switch kind {
	case 0:
		p = &packets.Puback{Version: ver, PacketID: 1, Code: code}
	case 1:
		p = &packets.Pubcomp{Version: ver, PacketID: 1, Code: code}
	case 2:
		p = &packets.Pubrec{Version: ver, PacketID: 1, Code: code}
	case 3:
		p = &packets.Pubrel{PacketID: 1, Properties: &packets.Properties{}}
	case 4:
		p = &packets.Publish{Version: ver, Qos: 1, PacketID: 1, TopicName: []byte("t"), Payload: []byte{1}, Properties: &packets.Properties{}}
	}
	c.out <- p
	go c.writeLoop()
	zzrt.Yield()
	zzrt.Observe("kind", kind)
	restored := c.serverReceiveMaximumQuota == q+1
	unchanged := c.serverReceiveMaximumQuota == q
	want := ver == packets.Version5 && (kind == 0 || kind == 1)
	if ver == packets.Version5 && kind == 2 {
		zzrt.Assert(zzrt.Implies(code >= 0x80, restored), "quota-restored-on-failing-pubrec")
		zzrt.Assert(zzrt.Implies(code < 0x80, unchanged), "quota-kept-on-successful-pubrec")
	} else if want {
		zzrt.Assert(restored, "quota-restored-on-puback-pubcomp")
	} else {
		zzrt.Assert(unchanged, "quota-untouched-otherwise")
	}
	if kind == 4 {
		pub := p.(*packets.Publish)
		usesAlias := ver == packets.Version5 && c.opts.ClientTopicAliasMax > 0
		if ver != packets.Version5 {
			zzrt.Assert(string(pub.TopicName) == "t", "v3-topic-kept")
		} else {
			zzrt.Assert(zzrt.Implies(zzrt.And(usesAlias, mgr.exist), len(pub.TopicName) == 0 && pub.Properties.TopicAlias != nil), "known-alias-replaces-topic")
			zzrt.Assert(zzrt.Implies(zzrt.Not(zzrt.And(usesAlias, mgr.exist)), string(pub.TopicName) == "t"), "topic-sent-when-alias-new-or-unused")
			zzrt.Assert(zzrt.Implies(zzrt.Not(usesAlias), pub.Properties.TopicAlias == nil), "no-alias-when-client-max-is-zero")
		}
		zzrt.Cover("publish")
	}
	c.setError(nil) // ends the write loop the way the broker does
	zzrt.Yield()
	zzrt.Cover("written")
}

// ZZ_C13_SizeIn: an inbound packet is refused with 0x95 exactly when it is larger than
// the advertised Maximum Packet Size (v5); v3 clients are never refused for size.
func ZZ_C13_SizeIn() {
	srv := defaultServer()
	srv.statsManager = newStatsManager(zzSubStats{})
	c, _ := srv.newClient(&zzConn{})
	ver := packets.Version311
	if zzrt.ConcreteBool(zzrt.Bool()) {
		ver = packets.Version5
	}
	c.version = ver
	limit := zzrt.Uint32()
	zzrt.Assume(limit >= 1) // the validator rejects 0
	c.opts.ServerMaxPacketSize = limit
	c.opts.ClientID = "c1"
	remain := zzrt.IntRange(0, 268435455)
	c.in <- &packets.Pingreq{FixHeader: &packets.FixHeader{PacketType: packets.PINGREQ, RemainLength: remain}}
	close(c.in)
	c.readHandle()
	// size on the wire: 1 byte type/flags + varint(remaining length) + remaining length
	vl := 1
	if zzrt.ConcreteBool(remain >= 128) {
		vl = 2
	}
	if zzrt.ConcreteBool(remain >= 16384) {
		vl = 3
	}
	if zzrt.ConcreteBool(remain >= 2097152) {
		vl = 4
	}
	size := uint32(1 + vl + remain)
	zzrt.Observe("size", size)
	zzrt.Observe("limit", limit)
	tooLarge := ver == packets.Version5 && zzrt.ConcreteBool(size > limit)
	if tooLarge {
		ce, ok := c.err.(*codes.Error)
		zzrt.Assert(ok && ce.Code == codes.PacketTooLarge, "oversize-refused-0x95")
		zzrt.Cover("refused")
	} else {
		zzrt.Assert(c.err == nil, "within-limit-not-disconnected")
		zzrt.Cover("accepted")
	}
}
