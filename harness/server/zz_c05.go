package server

// C05 — session lifecycle: resume iff it should; one connection per client id.
// C08 shares the scaffolding (zz_c08.go).

import (
	"time"

	gmqtt "github.com/DrmagicE/gmqtt"
	"github.com/DrmagicE/gmqtt/config"
	"github.com/DrmagicE/gmqtt/persistence/queue"
	"github.com/DrmagicE/gmqtt/persistence/session"
	sessmem "github.com/DrmagicE/gmqtt/persistence/session/mem"
	sessredis "github.com/DrmagicE/gmqtt/persistence/session/redis"
	"github.com/DrmagicE/gmqtt/persistence/subscription"
	submem "github.com/DrmagicE/gmqtt/persistence/subscription/mem"
	"github.com/DrmagicE/gmqtt/persistence/unack"
	unackmem "github.com/DrmagicE/gmqtt/persistence/unack/mem"
	"github.com/DrmagicE/gmqtt/pkg/packets"
	"github.com/DrmagicE/gmqtt/zzredis"
	"github.com/DrmagicE/gmqtt/zzrt"
)

// zzPersistence: memory session / subscription / unack stores (the real ones) and a
// recording queue per session (the real queues are C10's subject).
type zzPersistence struct {
	queues   map[string][]*zzRecQueue
	blocking bool // queues whose Read blocks while nothing is queued
}

func (p *zzPersistence) Open() error  { return nil }
func (p *zzPersistence) Close() error { return nil }
func (p *zzPersistence) NewQueueStore(c config.Config, n queue.Notifier, id string) (queue.Store, error) {
	q := &zzRecQueue{}
	if p.blocking {
		q.block = make(chan struct{})
	}
	p.queues[id] = append(p.queues[id], q)
	return q, nil
}
func (p *zzPersistence) NewSubscriptionStore(config.Config) (subscription.Store, error) {
	return submem.NewStore(), nil
}
func (p *zzPersistence) NewSessionStore(config.Config) (session.Store, error) {
	return sessmem.New(), nil
}
func (p *zzPersistence) NewUnackStore(c config.Config, id string) (unack.Store, error) {
	return unackmem.New(unackmem.Options{ClientID: id}), nil
}

type zzAliasNop struct{}

func (zzAliasNop) Check(*packets.Publish) (uint16, bool) { return 0, false }

func zzLifecycleServer() (*server, *zzPersistence) {
	srv := defaultServer()
	p := &zzPersistence{queues: map[string][]*zzRecQueue{}}
	srv.persistence = p
	srv.sessionStore = sessmem.New()
	srv.subscriptionsDB = submem.NewStore()
	srv.statsManager = newStatsManager(srv.subscriptionsDB)
	srv.clientService = &clientService{srv: srv, sessionStore: srv.sessionStore}
	srv.newTopicAliasManager = func(config.Config, uint16, string) TopicAliasManager { return zzAliasNop{} }
	srv.config.MQTT.TopicAliasMax = 4
	srv.config.MQTT.QueueQos0Msg = true
	return srv, p
}

// zzDial runs the real connectWithTimeOut + registerClient for one CONNECT.
func zzDial(srv *server, conn *packets.Connect) (*client, *packets.Connack, bool) {
	c, _ := srv.newClient(&zzConn{})
	c.in <- conn
	ok := c.connectWithTimeOut()
	var ack *packets.Connack
	for _, p := range zzDrain(c) {
		if a, isAck := p.(*packets.Connack); isAck {
			ack = a
		}
	}
	return c, ack, ok
}

// zzHangUp ends a connection the way serve() does once its goroutines are gone.
func zzHangUp(c *client, dis *packets.Disconnect) {
	if dis != nil {
		c.disconnectHandler(dis)
	}
	c.setError(nil)
	c.internalClose()
}

func zzConnectPacket(v5 bool, id string, clean bool, expiry *uint32) *packets.Connect {
	var conn *packets.Connect
	if v5 {
		conn = zzV5Connect(id)
		conn.Properties.SessionExpiryInterval = expiry
		conn.WillProperties = &packets.Properties{}
	} else {
		conn = zzV3Connect(id)
	}
	conn.CleanStart = clean
	return conn
}

// ZZ_C05_Resume: connect, subscribe, hang up after d1, (optionally expire-check /
// terminate), publish while offline, reconnect after d2: Session Present 1 and state
// intact iff the session is alive and Clean Start is 0.
func ZZ_C05_Resume() {
	srv, pers := zzLifecycleServer()
	// session store: memory, or the real redis session store over the zzredis stand-in
	if zzrt.Choice(zzrt.Param("BACKENDS")) == 1 {
		srv.sessionStore = sessredis.New(zzredis.NewPool(zzredis.NewStore()))
		srv.clientService.sessionStore = srv.sessionStore
		zzrt.Cover("redis-session-store")
	}
	cfgSec := zzrt.Uint32()
	zzrt.Assume(cfgSec <= 1<<22)
	srv.config.MQTT.SessionExpiry = time.Duration(cfgSec) * time.Second
	v5a := zzrt.ConcreteBool(zzrt.Bool())
	clean1 := zzrt.ConcreteBool(zzrt.Bool())
	var req *uint32
	var reqV uint32
	if v5a && zzrt.ConcreteBool(zzrt.Bool()) {
		reqV = zzrt.Uint32()
		zzrt.Assume(reqV <= 1<<22)
		req = &reqV
	}
	c1, ack1, ok1 := zzDial(srv, zzConnectPacket(v5a, "c1", clean1, req))
	zzrt.Assert(ok1 && ack1 != nil && ack1.Code == 0 && !ack1.SessionPresent, "first-connect-starts-empty")
	// effective interval per the statement
	var E uint32
	switch {
	case !v5a && clean1:
		E = 0
	case !v5a:
		E = cfgSec
	case req == nil:
		E = 0
	default:
		E = uint32(zzrt.IteInt(reqV < cfgSec, int(reqV), int(cfgSec)))
	}
	sess, _ := srv.sessionStore.Get("c1")
	zzrt.Assert(sess != nil && sess.ExpiryInterval == E, "stored-expiry-is-configured-or-min-of-requested-and-configured")
	if v5a {
		zzrt.Assert(ack1.Properties != nil && ack1.Properties.SessionExpiryInterval != nil && *ack1.Properties.SessionExpiryInterval == E, "connack-reports-the-stored-expiry")
	}
	srv.subscriptionsDB.Subscribe("c1", &gmqtt.Subscription{TopicFilter: "a", QoS: 1})
	q1 := pers.queues["c1"][0]
	// the connection lasts d1, then ends (abruptly, or with a v5 DISCONNECT that may update the expiry)
	d1 := zzrt.Int64()
	zzrt.Assume(d1 >= 0 && d1 < 1<<53)
	zzrt.ClockAdvance(time.Duration(d1))
	var dis *packets.Disconnect
	if v5a && zzrt.ConcreteBool(zzrt.Bool()) {
		dis = &packets.Disconnect{Version: packets.Version5, Properties: &packets.Properties{}}
		if zzrt.ConcreteBool(zzrt.Bool()) {
			nv := zzrt.Uint32()
			zzrt.Assume(nv <= 1<<22)
			zzrt.Assume(zzrt.Implies(E == 0, nv == 0)) // raising it from 0 is a protocol error
			dis.Properties.SessionExpiryInterval = &nv
			E = nv
		}
	}
	zzHangUp(c1, dis)
	zzrt.Observe("E", E)
	zzrt.Observe("d1", d1)
	stored := zzrt.ConcreteBool(E != 0)
	// a message published while the client is offline
	srv.mu.Lock()
	srv.deliverMessage("", &gmqtt.Message{Topic: "a", QoS: 1, Payload: []byte{9}}, defaultIterateOptions("a"))
	srv.mu.Unlock()
	if stored {
		zzrt.Assert(len(q1.added) == 1, "offline-message-queued-for-stored-session")
	}
	// time passes; the periodic expiry check or an administrator may end the session
	d2 := zzrt.Int64()
	zzrt.Assume(d2 >= 0 && d2 < 1<<53)
	zzrt.ClockAdvance(time.Duration(d2))
	terminated := false
	switch zzrt.Choice(3) {
	case 1:
		srv.sessionExpireCheck()
	case 2:
		srv.clientService.TerminateSession("c1")
		terminated = true
	}
	zzrt.Observe("d2", d2)
	lifetime := int64(E) * int64(time.Second)
	clean2 := zzrt.ConcreteBool(zzrt.Bool())
	v5b := zzrt.ConcreteBool(zzrt.Bool())
	c2, ack2, ok2 := zzDial(srv, zzConnectPacket(v5b, "c1", clean2, nil))
	zzrt.Assert(ok2 && ack2 != nil && ack2.Code == 0, "second-connect-accepted")
	zzrt.Observe("present", ack2.SessionPresent)
	mustResume := stored && !terminated && !clean2 && zzrt.ConcreteBool(d2 < lifetime)
	mustNot := !stored || terminated || clean2 || zzrt.ConcreteBool(d2 > lifetime)
	if mustResume {
		zzrt.Assert(ack2.SessionPresent, "live-session-is-resumed")
		zzrt.Assert(c2.queueStore == queue.Store(q1) && len(q1.added) == 1, "resumed-session-keeps-undelivered-messages")
		got := subscription.GetClientSubscriptions(srv.subscriptionsDB, "c1", subscription.TypeAll)
		zzrt.Assert(len(got) == 1 && got[0].TopicFilter == "a", "resumed-session-keeps-subscriptions")
		zzrt.Cover("resumed")
	}
	if mustNot {
		zzrt.Assert(!ack2.SessionPresent, "ended-session-is-not-resumed")
		got := subscription.GetClientSubscriptions(srv.subscriptionsDB, "c1", subscription.TypeAll)
		zzrt.Assert(len(got) == 0, "fresh-session-has-no-subscriptions")
		nq, isRec := c2.queueStore.(*zzRecQueue)
		zzrt.Assert(isRec && nq != q1 && len(nq.added) == 0, "fresh-session-has-an-empty-queue")
		zzrt.Cover("fresh")
	}
	zzrt.Assert(srv.clients["c1"] == c2, "new-connection-is-the-registered-one")
	// the connection now stays up for longer than any earlier offline deadline; the periodic
	// sweep must not touch the session of a connected client
	zzrt.ClockAdvance(time.Duration(1<<23) * time.Second)
	srv.sessionExpireCheck()
	zzrt.Assert(srv.clients["c1"] == c2, "sweep-leaves-the-session-of-a-connected-client-alone")
	still, _ := srv.sessionStore.Get("c1")
	zzrt.Assert(still != nil, "sweep-leaves-the-session-of-a-connected-client-alone")
	if mustResume {
		got := subscription.GetClientSubscriptions(srv.subscriptionsDB, "c1", subscription.TypeAll)
		zzrt.Assert(len(got) == 1, "sweep-leaves-the-session-of-a-connected-client-alone")
	}
}

// ZZ_C05_Takeover: a CONNECT for a client id whose previous connection is still
// attached is not acknowledged before the old connection has been closed, and at no
// point are two connections registered for the id.
func ZZ_C05_Takeover() {
	srv, _ := zzLifecycleServer()
	srv.config.MQTT.SessionExpiry = time.Hour
	v5 := zzrt.ConcreteBool(zzrt.Bool())
	exp := uint32(100)
	c1, _, ok1 := zzDial(srv, zzConnectPacket(v5, "c1", false, &exp))
	zzrt.Assert(ok1, "first-connect")
	old := c1.rwc.(*zzConn)
	clean2 := zzrt.ConcreteBool(zzrt.Bool())
	var c2 *client
	var ack2 *packets.Connack
	done := false
	go func() {
		c2, ack2, _ = zzDial(srv, zzConnectPacket(v5, "c1", clean2, &exp))
		done = true
	}()
	zzrt.Yield()
	// the newcomer must be waiting for the old connection; the old one was told to go
	zzrt.Assert(!done, "new-connect-not-acknowledged-while-old-connection-attached")
	zzrt.Assert(old.closed >= 1, "old-connection-closed-first")
	zzrt.Assert(srv.clients["c1"] == c1, "old-connection-still-the-registered-one")
	// the old connection's goroutines wind down
	c1.internalClose()
	zzrt.Yield()
	zzrt.Assert(done && ack2 != nil && ack2.Code == 0, "new-connect-acknowledged-after-old-closed")
	zzrt.Assert(srv.clients["c1"] == c2 && len(srv.clients) == 1, "exactly-one-connection-registered")
	zzrt.Assert(ack2.SessionPresent == !clean2, "takeover-resumes-iff-not-clean-start")
	zzrt.Cover("takeover")
}
