//go:build !zzsym

package server

// Native mode: a real gorilla/websocket connection pair over a loopback HTTP
// upgrade; the peer writes the scripted messages and then closes.

import (
	"net/http"
	"net/http/httptest"
	"strings"
	"time"

	"github.com/gorilla/websocket"
)

func zzWSPair() (srvConn, cliConn *websocket.Conn, done func()) {
	ch := make(chan *websocket.Conn, 1)
	up := websocket.Upgrader{}
	ts := httptest.NewServer(http.HandlerFunc(func(w http.ResponseWriter, r *http.Request) {
		c, err := up.Upgrade(w, r, nil)
		if err != nil {
			panic(err)
		}
		ch <- c
	}))
	cli, _, err := websocket.DefaultDialer.Dial("ws"+strings.TrimPrefix(ts.URL, "http"), nil)
	if err != nil {
		panic(err)
	}
	srv := <-ch
	return srv, cli, func() { cli.Close(); srv.Close(); ts.Close() }
}

func zzWSConn(msgs []zzWSMsg) (*websocket.Conn, func()) {
	srv, cli, done := zzWSPair()
	go func() {
		for _, m := range msgs {
			cli.WriteMessage(m.typ, m.payload)
		}
		cli.WriteControl(websocket.CloseMessage, websocket.FormatCloseMessage(websocket.CloseNormalClosure, ""), time.Now().Add(time.Second))
	}()
	return srv, done
}

func zzWSSink() (*websocket.Conn, func(int) []zzWSMsg, func()) {
	srv, cli, done := zzWSPair()
	return srv, func(k int) []zzWSMsg {
		var out []zzWSMsg
		for i := 0; i < k; i++ {
			cli.SetReadDeadline(time.Now().Add(2 * time.Second))
			t, p, err := cli.ReadMessage()
			if err != nil {
				break
			}
			out = append(out, zzWSMsg{t, p})
		}
		return out
	}, done
}
