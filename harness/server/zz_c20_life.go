package server

// C20 — connection / session gauges against ground truth over connection lifecycles:
// the real connectWithTimeOut / registerClient / unregisterClient / sessionExpireCheck /
// TerminateSession call the statistics mutators; after every step the gauges must equal
// the number of online connections and of stored offline sessions.

import (
	"time"

	gmqtt "github.com/DrmagicE/gmqtt"
	sessredis "github.com/DrmagicE/gmqtt/persistence/session/redis"
	"github.com/DrmagicE/gmqtt/pkg/packets"
	"github.com/DrmagicE/gmqtt/zzredis"
	"github.com/DrmagicE/gmqtt/zzrt"
)

func ZZ_C20_Lifecycle() {
	K := zzrt.Param("K")
	srv, _ := zzLifecycleServer()
	srv.config.MQTT.SessionExpiry = 100 * time.Second
	// session store: memory, or the real redis session store over the zzredis stand-in
	backend := zzrt.Choice(zzrt.Param("BACKENDS"))
	zzrt.Observe("backend", backend)
	if backend == 1 {
		srv.sessionStore = sessredis.New(zzredis.NewPool(zzredis.NewStore()))
		srv.clientService.sessionStore = srv.sessionStore
	}
	ids := []string{"c1", "c2"}
	online := map[string]*client{}
	var connected, disconnected, created uint64
	check := func(where string) {
		st := srv.statsManager.GetGlobalStats().ConnectionStats
		stored := 0
		srv.sessionStore.Iterate(func(s *gmqtt.Session) bool {
			if online[s.ClientID] == nil {
				stored++
			}
			return true
		})
		zzrt.Observe("online", len(online))
		zzrt.Observe("stored", stored)
		zzrt.Assert(st.ActiveCurrent == uint64(len(online)), "active-gauge-equals-online-sessions")
		zzrt.Assert(st.InactiveCurrent == uint64(stored), "inactive-gauge-equals-stored-offline-sessions")
		zzrt.Assert(st.ActiveCurrent < 1<<62 && st.InactiveCurrent < 1<<62, "no-gauge-wraps-below-zero")
		zzrt.Assert(st.ConnectedTotal == connected, "connected-total-equals-accepted-connects")
		zzrt.Assert(st.DisconnectedTotal == disconnected, "disconnected-total-equals-ended-connections")
		zzrt.Assert(st.SessionCreatedTotal == created, "session-created-total-equals-fresh-sessions")
		ended := st.SessionTerminated.Normal + st.SessionTerminated.Expired + st.SessionTerminated.TakenOver
		zzrt.Assert(created == ended+uint64(len(online))+uint64(stored), "sessions-created-equal-sessions-ended-plus-live")
	}
	for step := 0; step < K; step++ {
		id := ids[zzrt.Choice(2)]
		switch ev := zzrt.Choice(9); ev {
		case 0, 1, 2, 3, 4: // CONNECT (take-over when the id is online)
			var conn *packets.Connect
			e100, e0 := uint32(100), uint32(0)
			switch ev {
			case 0:
				conn = zzConnectPacket(true, id, false, &e100)
			case 1:
				conn = zzConnectPacket(true, id, true, &e100)
			case 2:
				conn = zzConnectPacket(true, id, true, &e0)
			case 3:
				conn = zzConnectPacket(false, id, false, nil)
			case 4:
				conn = zzConnectPacket(false, id, true, nil)
			}
			var c *client
			var ack *packets.Connack
			var ok bool
			if old := online[id]; old != nil {
				done := false
				go func() { c, ack, ok = zzDial(srv, conn); done = true }()
				zzrt.Yield()
				old.internalClose()
				zzrt.Yield()
				zzrt.Assert(done, "take-over-completes")
				disconnected++
				zzrt.Cover("taken-over")
			} else {
				c, ack, ok = zzDial(srv, conn)
				zzrt.Yield()
			}
			zzrt.Assert(ok && ack != nil && ack.Code == 0, "connect-accepted")
			connected++
			if !ack.SessionPresent {
				created++
			} else {
				zzrt.Cover("resumed")
			}
			online[id] = c
		case 5: // the connection ends
			if c := online[id]; c != nil {
				zzHangUp(c, nil)
				zzrt.Yield()
				delete(online, id)
				disconnected++
			}
		case 6:
			zzrt.ClockAdvance(200 * time.Second)
		case 7:
			srv.sessionExpireCheck()
			zzrt.Yield()
			zzrt.Cover("sweep")
		case 8:
			srv.clientService.TerminateSession(id)
			if c := online[id]; c != nil {
				c.internalClose()
				delete(online, id)
				disconnected++
			}
			zzrt.Yield()
		}
		check("after-step")
	}
	zzrt.Cover("lifecycle-done")
}
