package server

// C20 — statistics are conserved.  One-step induction from ARBITRARY counter values:
// every counter of the manager (global and two clients) is a fresh 64-bit symbol; one
// mutator runs; the complete reader output (all fields, enumerated generically) is
// compared with a ghost copy updated the way the statement says.

import (
	gmqtt "github.com/DrmagicE/gmqtt"
	"github.com/DrmagicE/gmqtt/persistence/queue"
	"github.com/DrmagicE/gmqtt/persistence/subscription"
	"github.com/DrmagicE/gmqtt/pkg/packets"
	"github.com/DrmagicE/gmqtt/zzrt"
)

type zzSubStats struct{}

func (zzSubStats) GetStats() subscription.Stats { return subscription.Stats{} }
func (zzSubStats) GetClientStats(string) (subscription.Stats, error) {
	return subscription.Stats{}, nil
}

func zzPacketOfKind(k int, remain int) packets.Packet {
	fh := &packets.FixHeader{RemainLength: remain}
	switch k {
	case 0:
		return &packets.Auth{FixHeader: fh}
	case 1:
		return &packets.Connect{FixHeader: fh}
	case 2:
		return &packets.Connack{FixHeader: fh}
	case 3:
		return &packets.Disconnect{FixHeader: fh}
	case 4:
		return &packets.Pingreq{FixHeader: fh}
	case 5:
		return &packets.Pingresp{FixHeader: fh}
	case 6:
		return &packets.Puback{FixHeader: fh}
	case 7:
		return &packets.Pubcomp{FixHeader: fh}
	case 8:
		return &packets.Publish{FixHeader: fh}
	case 9:
		return &packets.Pubrec{FixHeader: fh}
	case 10:
		return &packets.Pubrel{FixHeader: fh}
	case 11:
		return &packets.Suback{FixHeader: fh}
	case 12:
		return &packets.Subscribe{FixHeader: fh}
	case 13:
		return &packets.Unsuback{FixHeader: fh}
	default:
		return &packets.Unsubscribe{FixHeader: fh}
	}
}

func zzBytesField(pb *PacketBytes, k int) *uint64 {
	return []*uint64{&pb.Auth, &pb.Connect, &pb.Connack, &pb.Disconnect, &pb.Pingreq, &pb.Pingresp, &pb.Puback, &pb.Pubcomp,
		&pb.Publish, &pb.Pubrec, &pb.Pubrel, &pb.Suback, &pb.Subscribe, &pb.Unsuback, &pb.Unsubscribe}[k]
}

func zzQos(ms *MessageStats, q int) *MessageQosStats {
	return []*MessageQosStats{&ms.Qos0, &ms.Qos1, &ms.Qos2}[q]
}

func zzDropField(d *DroppedTotal, e int) *uint64 {
	return []*uint64{&d.ExceedsMaxPacketSize, &d.QueueFull, &d.Expired, &d.InflightExpired, &d.Internal}[e]
}

var zzDropErrs = []error{queue.ErrDropExceedsMaxPacketSize, queue.ErrDropQueueFull, queue.ErrDropExpired, queue.ErrDropExpiredInflight, &queue.InternalError{}}

func zzAllEq(a, b []uint64, label string) {
	zzrt.Assert(len(a) == len(b), label+"-shape")
	ok := true
	for i := range a {
		ok = zzrt.And(ok, a[i] == b[i])
	}
	zzrt.Assert(ok, label)
}

// ZZ_C20_Step: one mutator call from arbitrary counters.
func ZZ_C20_Step() {
	s := newStatsManager(zzSubStats{})
	ids := []string{"c1", "c2"}
	zzrt.FillSymbolic(s.totalStats)
	for _, id := range ids {
		cs := &ClientStats{}
		zzrt.FillSymbolic(cs)
		s.clientStats[id] = cs
	}
	// Inv: each global gauge is at least each client's gauge share (global = sum over
	// clients incl. those not modelled), so a legal decrement cannot underflow globally.
	for _, id := range ids {
		zzrt.Assume(s.totalStats.MessageStats.InflightCurrent >= s.clientStats[id].MessageStats.InflightCurrent)
		zzrt.Assume(s.totalStats.MessageStats.QueuedCurrent >= s.clientStats[id].MessageStats.QueuedCurrent)
	}
	// ghost copies
	gG := *s.totalStats
	gG.SubscriptionStats = subscription.Stats{} // reported from the subscription store, not from the manager
	gC := map[string]*ClientStats{}
	for _, id := range ids {
		c := *s.clientStats[id]
		c.SubscriptionStats = subscription.Stats{}
		gC[id] = &c
	}
	// the reader must already return every stored field (checked before the step)
	g0 := s.GetGlobalStats()
	zzAllEq(zzrt.Flatten(g0), zzrt.Flatten(gG), "global-reader-returns-all-fields")
	for _, id := range ids {
		c0, ok := s.GetClientStats(id)
		zzrt.Assert(ok, "client-stats-present")
		zzAllEq(zzrt.Flatten(c0), zzrt.Flatten(*gC[id]), "client-reader-returns-all-fields")
	}

	id := ids[zzrt.Choice(2)]
	op := zzrt.Choice(10)
	zzrt.Observe("op", op)
	switch op {
	case 0, 1: // packetReceived / packetSent
		k := zzrt.Choice(15)
		remain := zzrt.IntRange(0, 268435455)
		p := zzPacketOfKind(k, remain)
		// bytes on the wire, from the specification: 1 byte of type and flags, the
		// Remaining Length as a variable byte integer (1..4 bytes), the remaining bytes
		vl := zzrt.IteInt(remain < 128, 1, zzrt.IteInt(remain < 16384, 2, zzrt.IteInt(remain < 2097152, 3, 4)))
		b := uint64(1 + vl + remain)
		for _, ps := range []*PacketStats{&gG.PacketStats, &gC[id].PacketStats} {
			bytes, count := &ps.BytesReceived, &ps.ReceivedTotal
			if op == 1 {
				bytes, count = &ps.BytesSent, &ps.SentTotal
			}
			*zzBytesField(bytes, k) += b
			*zzBytesField(count, k)++
			bytes.Total += b
			count.Total++
		}
		if op == 0 {
			s.packetReceived(p, id)
		} else {
			s.packetSent(p, id)
		}
	case 2, 3: // messageReceived / messageSent
		q := zzrt.Choice(3)
		for _, ms := range []*MessageStats{&gG.MessageStats, &gC[id].MessageStats} {
			if op == 2 {
				zzQos(ms, q).ReceivedTotal++
			} else {
				zzQos(ms, q).SentTotal++
			}
		}
		if op == 2 {
			s.messageReceived(uint8(q), id)
		} else {
			s.messageSent(uint8(q), id)
		}
	case 4: // messageDropped
		q := zzrt.Choice(3)
		e := zzrt.Choice(5)
		for _, ms := range []*MessageStats{&gG.MessageStats, &gC[id].MessageStats} {
			*zzDropField(&zzQos(ms, q).DroppedTotal, e)++
		}
		s.messageDropped(uint8(q), id, zzDropErrs[e])
	case 5, 6: // addInflight / addQueueLen
		d := uint64(zzrt.IntRange(1, 3))
		if op == 5 {
			gG.MessageStats.InflightCurrent += d
			gC[id].MessageStats.InflightCurrent += d
			s.addInflight(id, d)
		} else {
			gG.MessageStats.QueuedCurrent += d
			gC[id].MessageStats.QueuedCurrent += d
			s.addQueueLen(id, d)
		}
	case 7, 8: // decInflight / decQueueLen
		d := uint64(zzrt.IntRange(1, 3))
		var cg, gg *uint64
		if op == 7 {
			cg, gg = &gC[id].MessageStats.InflightCurrent, &gG.MessageStats.InflightCurrent
		} else {
			cg, gg = &gC[id].MessageStats.QueuedCurrent, &gG.MessageStats.QueuedCurrent
		}
		preC, preG := *cg, *gg
		zzrt.Observe("gauge", preC)
		zzrt.Observe("delta", d)
		if op == 7 {
			s.decInflight(id, d)
		} else {
			s.decQueueLen(id, d)
		}
		var postC, postG uint64
		if op == 7 {
			postC, postG = s.clientStats[id].MessageStats.InflightCurrent, s.totalStats.MessageStats.InflightCurrent
		} else {
			postC, postG = s.clientStats[id].MessageStats.QueuedCurrent, s.totalStats.MessageStats.QueuedCurrent
		}
		// no gauge ever wraps below zero
		zzrt.Assert(zzrt.And(postC <= preC, postG <= preG), "gauge-does-not-wrap")
		// exact when the gauge covers the decrement
		zzrt.Assert(zzrt.Implies(preC >= d, zzrt.And(postC == preC-d, postG == preG-d)), "gauge-decrement-exact")
		*cg, *gg = postC, postG
	case 9: // session/connection counters
		switch zzrt.Choice(5) {
		case 0:
			gG.ConnectionStats.ConnectedTotal++
			s.clientConnected(id)
		case 1:
			gG.ConnectionStats.SessionCreatedTotal++
			gG.ConnectionStats.ActiveCurrent++
			s.sessionActive(true)
		case 2:
			zzrt.Assume(gG.ConnectionStats.InactiveCurrent >= 1)
			gG.ConnectionStats.InactiveCurrent--
			gG.ConnectionStats.ActiveCurrent++
			s.sessionActive(false)
		case 3:
			zzrt.Assume(gG.ConnectionStats.ActiveCurrent >= 1)
			gG.ConnectionStats.DisconnectedTotal++
			gG.ConnectionStats.ActiveCurrent--
			gG.ConnectionStats.InactiveCurrent++
			s.clientDisconnected(id)
		case 4:
			zzrt.Assume(gG.ConnectionStats.InactiveCurrent >= 1)
			r := zzrt.Choice(3)
			switch r {
			case 0:
				gG.ConnectionStats.SessionTerminated.Normal++
			case 1:
				gG.ConnectionStats.SessionTerminated.TakenOver++
			case 2:
				gG.ConnectionStats.SessionTerminated.Expired++
			}
			gG.ConnectionStats.InactiveCurrent--
			delete(gC, id)
			s.sessionTerminated(id, []SessionTerminatedReason{NormalTermination, TakenOverTermination, ExpiredTermination}[r])
		}
	}
	// everything the readers report equals the ghost: exactly the designated counters
	// of the designated QoS / type / client moved, by the right amount
	zzAllEq(zzrt.Flatten(s.GetGlobalStats()), zzrt.Flatten(gG), "global-counters-exact")
	for _, cid := range ids {
		c1, ok := s.GetClientStats(cid)
		if gC[cid] == nil {
			zzrt.Assert(!ok, "terminated-client-stats-removed")
			continue
		}
		zzrt.Assert(ok, "client-stats-kept")
		zzAllEq(zzrt.Flatten(c1), zzrt.Flatten(*gC[cid]), "client-counters-exact")
	}
	zzrt.Cover("step-done")
}

var _ = gmqtt.Message{}
