package server

// C04 — inbound QoS 2 exactly-once; every QoS>0 packet gets its matching ack.

import (
	"context"

	gmqtt "github.com/DrmagicE/gmqtt"
	"github.com/DrmagicE/gmqtt/persistence/subscription"
	"github.com/DrmagicE/gmqtt/persistence/unack"
	unackmem "github.com/DrmagicE/gmqtt/persistence/unack/mem"
	unackredis "github.com/DrmagicE/gmqtt/persistence/unack/redis"
	"github.com/DrmagicE/gmqtt/pkg/codes"
	"github.com/DrmagicE/gmqtt/pkg/packets"
	"github.com/DrmagicE/gmqtt/zzredis"
	"github.com/DrmagicE/gmqtt/zzrt"
)

// ZZ_C04_History: K inbound packets with symbolic 16-bit identifiers (the solver decides
// which coincide) against the real publishHandler / pubrelHandler and the real memory
// unack store (memory or redis); ghost set G = identifiers received and not yet released.
func ZZ_C04_History() {
	K := zzrt.Param("K")
	srv := defaultServer()
	ver := packets.Version311
	if zzrt.ConcreteBool(zzrt.Bool()) {
		ver = packets.Version5
	}
	// the identifier store: memory, or the real redis store over the zzredis stand-in
	// (then a reconnect may also be a broker restart: a fresh store object over the same data)
	backend := zzrt.Choice(zzrt.Param("BACKENDS"))
	rst := zzredis.NewStore()
	mkStore := func() unack.Store {
		if backend == 0 {
			return unackmem.New(unackmem.Options{ClientID: "c1"})
		}
		return unackredis.New(unackredis.Options{ClientID: "c1", Pool: zzredis.NewPool(rst)})
	}
	store := mkStore()
	zzrt.Observe("backend", backend)
	c := &client{server: srv, version: ver, unackStore: store, out: make(chan packets.Packet, 8), close: make(chan struct{}),
		opts: &ClientOptions{ClientID: "c1", RetainAvailable: true}}
	delivered := 0
	c.deliverMessage = func(src string, msg *gmqtt.Message, o subscription.IterationOptions) bool {
		delivered++
		return true
	}
	// an OnMsgArrived hook that may reject with a failing reason code
	var reject *codes.Error
	srv.hooks.OnMsgArrived = func(ctx context.Context, cl Client, req *MsgArrivedRequest) error {
		if reject != nil {
			return reject
		}
		return nil
	}
	var G []packets.PacketID
	inG := func(id packets.PacketID) bool {
		r := false
		for _, g := range G {
			r = zzrt.Or(r, g == id)
		}
		return r
	}
	remove := func(id packets.PacketID) {
		var n []packets.PacketID
		for _, g := range G {
			if !zzrt.ConcreteBool(g == id) {
				n = append(n, g)
			}
		}
		G = n
	}
	for step := 0; step < K; step++ {
		id := zzrt.Uint16()
		before := delivered
		switch zzrt.Choice(4) {
		case 0: // PUBLISH QoS 2
			reject = nil
			if ver == packets.Version5 && zzrt.ConcreteBool(zzrt.Bool()) {
				code := zzrt.Byte()
				zzrt.Assume(code >= 0x80)
				reject = &codes.Error{Code: code}
			}
			dup := zzrt.ConcreteBool(inG(id))
			err := c.publishHandler(&packets.Publish{Version: ver, Qos: 2, PacketID: id, Dup: zzrt.Bool(), TopicName: []byte("t"), Payload: []byte{1}, Properties: &packets.Properties{}})
			zzrt.Assert(err == nil, "publish-handled")
			out := zzDrain(c)
			zzrt.Assert(len(out) == 1, "one-ack-per-qos2-publish")
			rec, ok := out[0].(*packets.Pubrec)
			zzrt.Assert(ok && rec.PacketID == id, "pubrec-same-id")
			switch {
			case dup:
				zzrt.Assert(delivered == before, "retransmitted-qos2-not-delivered-again")
				zzrt.Cover("duplicate-suppressed")
			case reject != nil:
				zzrt.Assert(delivered == before, "rejected-publish-not-delivered")
				zzrt.Assert(rec.Code == reject.Code, "pubrec-carries-failure-code")
				// the exchange is over: the identifier is free again
			default:
				zzrt.Assert(delivered == before+1, "new-qos2-delivered-once")
				G = append(G, id)
				zzrt.Cover("qos2-delivered")
			}
		case 1: // PUBREL
			err := c.pubrelHandler(&packets.Pubrel{PacketID: id})
			zzrt.Assert(err == nil, "pubrel-handled")
			out := zzDrain(c)
			zzrt.Assert(len(out) == 1, "one-ack-per-pubrel")
			comp, ok := out[0].(*packets.Pubcomp)
			zzrt.Assert(ok && comp.PacketID == id, "pubcomp-same-id")
			zzrt.Assert(delivered == before, "pubrel-delivers-nothing")
			remove(id)
			zzrt.Cover("pubrel")
		case 2: // PUBLISH QoS 1
			reject = nil
			err := c.publishHandler(&packets.Publish{Version: ver, Qos: 1, PacketID: id, Dup: zzrt.Bool(), TopicName: []byte("t"), Payload: []byte{1}, Properties: &packets.Properties{}})
			zzrt.Assert(err == nil, "publish-handled")
			out := zzDrain(c)
			zzrt.Assert(len(out) == 1, "one-ack-per-qos1-publish")
			ack, ok := out[0].(*packets.Puback)
			zzrt.Assert(ok && ack.PacketID == id, "puback-same-id")
			zzrt.Assert(delivered == before+1, "qos1-always-delivered")
		case 3: // the connection is cut and the client reconnects
			clean := zzrt.ConcreteBool(zzrt.Bool())
			if backend == 1 && zzrt.Choice(2) == 1 {
				// the broker was restarted in between
				store = mkStore()
				c.unackStore = store
				zzrt.Cover("restart")
			}
			zzrt.Assert(store.Init(clean) == nil, "init-ok")
			if clean {
				G = nil
			}
			zzrt.Cover("reconnect")
		}
	}
	zzrt.Cover("history-done")
}
