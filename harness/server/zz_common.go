package server

// Shared harness scaffolding for package server (overlay-only; never on disk in /repo).

import (
	"github.com/DrmagicE/gmqtt/persistence/subscription"
	"net"
	"time"

	"github.com/DrmagicE/gmqtt/persistence/queue"
	"github.com/DrmagicE/gmqtt/pkg/packets"
)

type zzAddr struct{}

func (zzAddr) Network() string { return "zz" }
func (zzAddr) String() string  { return "zz:0" }

// zzConn is a fake net.Conn: records writes and Close, never delivers input.
type zzConn struct {
	closed  int
	written []byte
}

func (c *zzConn) Read(p []byte) (int, error)         { return 0, net.ErrClosed }
func (c *zzConn) Write(p []byte) (int, error)        { c.written = append(c.written, p...); return len(p), nil }
func (c *zzConn) Close() error                       { c.closed++; return nil }
func (c *zzConn) LocalAddr() net.Addr                { return zzAddr{} }
func (c *zzConn) RemoteAddr() net.Addr               { return zzAddr{} }
func (c *zzConn) SetDeadline(t time.Time) error      { return nil }
func (c *zzConn) SetReadDeadline(t time.Time) error  { return nil }
func (c *zzConn) SetWriteDeadline(t time.Time) error { return nil }

// zzRecQueue is a recording / scripted queue.Store.
type zzRecQueue struct {
	added    []*queue.Elem
	script   []*queue.Elem // returned by the next Read
	inflight []*queue.Elem // returned by ReadInflight (once)
	removed  []packets.PacketID
	replaced []*queue.Elem
	inits    []*queue.InitOptions
	closed   int
	addErr   error
	onRead   func() // runs when Read is entered (a Read that blocks before it returns)
	block    chan struct{} // non-nil: Read with nothing scripted blocks until Close (as a real queue does)
}

func (q *zzRecQueue) Close() error {
	q.closed++
	if q.block != nil && q.closed == 1 {
		close(q.block)
	}
	return nil
}
func (q *zzRecQueue) Init(o *queue.InitOptions) error {
	q.inits = append(q.inits, o)
	return nil
}
func (q *zzRecQueue) Clean() error { return nil }
func (q *zzRecQueue) Add(e *queue.Elem) error {
	if q.addErr != nil {
		return q.addErr
	}
	q.added = append(q.added, e)
	return nil
}
func (q *zzRecQueue) Replace(e *queue.Elem) (bool, error) {
	q.replaced = append(q.replaced, e)
	return true, nil
}
func (q *zzRecQueue) Read(pids []packets.PacketID) ([]*queue.Elem, error) {
	if q.onRead != nil {
		q.onRead()
	}
	if q.script == nil {
		if q.block != nil {
			<-q.block
		}
		return nil, queue.ErrClosed
	}
	out := q.script
	q.script = nil
	// assign ids the way the Store contract says: in order, QoS>0 only
	i := 0
	for _, e := range out {
		if p, ok := e.MessageWithID.(*queue.Publish); ok && p.QoS > 0 && i < len(pids) {
			p.SetID(pids[i])
			i++
		}
	}
	return out, nil
}
func (q *zzRecQueue) ReadInflight(max uint) ([]*queue.Elem, error) {
	out := q.inflight
	q.inflight = nil
	return out, nil
}
func (q *zzRecQueue) Remove(pid packets.PacketID) error {
	q.removed = append(q.removed, pid)
	return nil
}

// zzDrain empties client.out without blocking.
func zzDrain(c *client) []packets.Packet {
	var out []packets.Packet
	for {
		select {
		case p := <-c.out:
			out = append(out, p)
		default:
			return out
		}
	}
}

// zzConnect runs the real connectWithTimeOut for one CONNECT packet with a stub
// register (the session machinery is not part of the caller's subject).
func zzConnect(srv *server, conn *packets.Connect) (*client, bool) {
	c, _ := srv.newClient(&zzConn{})
	c.register = func(connect *packets.Connect, client *client) (bool, error) { return false, nil }
	c.unregister = func(*client) {}
	c.in <- conn
	ok := c.connectWithTimeOut()
	return c, ok
}

func zzV5Connect(id string) *packets.Connect {
	return &packets.Connect{Version: packets.Version5, FixHeader: &packets.FixHeader{PacketType: packets.CONNECT}, ProtocolName: []byte("MQTT"), ProtocolLevel: 5, ClientID: []byte(id), Properties: &packets.Properties{}}
}

func zzV3Connect(id string) *packets.Connect {
	return &packets.Connect{Version: packets.Version311, FixHeader: &packets.FixHeader{PacketType: packets.CONNECT}, ProtocolName: []byte("MQTT"), ProtocolLevel: 4, ClientID: []byte(id)}
}

type subscriptionIterationOptions = subscription.IterationOptions

// zzUnack is a trivial unack.Store (never reports a duplicate).
type zzUnack struct{}

func (*zzUnack) Init(bool) error                         { return nil }
func (*zzUnack) Set(packets.PacketID) (bool, error)      { return false, nil }
func (*zzUnack) Remove(packets.PacketID) error           { return nil }
