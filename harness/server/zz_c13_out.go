package server

// C13, outbound Maximum Packet Size across a session resume: the limit that counts is
// the one declared on the CURRENT connection, also for what is retransmitted.

import (
	"context"
	gmqtt "github.com/DrmagicE/gmqtt"
	"github.com/DrmagicE/gmqtt/persistence/queue"
	"github.com/DrmagicE/gmqtt/pkg/packets"
	"github.com/DrmagicE/gmqtt/zzrt"
)

// ZZMemQueue builds the real memory queue (set by the entry package zzc13).
var ZZMemQueue func(max int, n queue.Notifier) queue.Store

// ZZFifoAlias is topicalias/fifo.New (set by the entry package zzc13).
var ZZFifoAlias NewTopicAliasManager

type zzDropNotifier struct {
	dropped  []*queue.Elem
	reasons  []error
	inflight int
	queued   int
}

func (n *zzDropNotifier) NotifyDropped(e *queue.Elem, err error) {
	n.dropped = append(n.dropped, e)
	n.reasons = append(n.reasons, err)
}
func (n *zzDropNotifier) NotifyInflightAdded(d int) { n.inflight += d }
func (n *zzDropNotifier) NotifyMsgQueueAdded(d int) { n.queued += d }

// ZZC13SizeOutResume: a client declares Maximum Packet Size A, receives QoS>0 messages
// it does not acknowledge, reconnects (Clean Start 0) declaring B: nothing larger than B
// is sent on the second connection — neither retransmitted nor new — oversize messages
// are dropped whole and reported, and the connection stays up.
func ZZC13SizeOutResume() {
	nt := &zzDropNotifier{}
	hookDrops := 0
	q := ZZMemQueue(4, nt)
	A, B := zzrt.Uint32(), zzrt.Uint32()
	zzrt.Assume(A >= 16 && A <= 80 && B >= 16 && B <= 80)
	zzrt.Observe("A", A)
	zzrt.Observe("B", B)
	mkClient := func(limit uint32) *client {
		c := &client{version: packets.Version5, queueStore: q, out: make(chan packets.Packet, 16), close: make(chan struct{}),
			opts: &ClientOptions{ClientID: "c1", MaxInflight: 8, ClientMaxPacketSize: limit}}
		c.newPacketIDLimiter(8)
		c.server = defaultServer()
		c.server.statsManager = newStatsManager(zzSubStats{})
		c.queueNotifier = &queueNotifier{sts: c.server.statsManager, cli: c, dropHook: func(ctx context.Context, id string, m *gmqtt.Message, err error) {
			hookDrops++
			zzrt.Assert(err == queue.ErrDropExceedsMaxPacketSize, "oversize-drop-carries-its-reason")
		}}
		return c
	}
	c1 := mkClient(A)
	zzrt.Assert(q.Init(&queue.InitOptions{CleanStart: true, Version: packets.Version5, ReadBytesLimit: A, Notifier: nt}) == nil, "init-ok")
	q.ReadInflight(8)
	sizes := []int{1, 20, 45}
	n := 1 + zzrt.Choice(2)
	var msgs []*gmqtt.Message
	for i := 0; i < n; i++ {
		m := &gmqtt.Message{Topic: "t", QoS: byte(1 + zzrt.Choice(2)), Payload: make([]byte, sizes[zzrt.Choice(len(sizes))])}
		m.Payload[0] = byte(i + 1)
		msgs = append(msgs, m)
		zzrt.Assert(q.Add(&queue.Elem{MessageWithID: &queue.Publish{Message: m}}) == nil, "add-ok")
	}
	ids := c1.pl.pollPacketIDs(8)
	rest, err := c1.pollNewMessages(ids)
	zzrt.Assert(err == nil, "first-poll-ok")
	c1.pl.batchRelease(rest)
	sent1 := 0
	for _, p := range zzDrain(c1) {
		pub := p.(*packets.Publish)
		sz := gmqtt.MessageFromPublish(pub).TotalBytes(packets.Version5)
		zzrt.Assert(sz <= A, "nothing-larger-than-the-declared-maximum-is-sent")
		sent1++
	}
	zzrt.Assert(sent1+len(nt.dropped) == n, "every-message-sent-or-reported-dropped")
	// the connection ends without any acknowledgement; the client resumes declaring B
	q.Close()
	c2 := mkClient(B)
	zzrt.Assert(q.Init(&queue.InitOptions{CleanStart: false, Version: packets.Version5, ReadBytesLimit: B, Notifier: nt}) == nil, "resume-ok")
	for round := 0; round < 4; round++ {
		cont, err := c2.pollInflights()
		zzrt.Assert(err == nil, "resume-poll-ok")
		if !cont {
			break
		}
	}
	sent2 := 0
	for _, p := range zzDrain(c2) {
		if pub, ok := p.(*packets.Publish); ok {
			sz := gmqtt.MessageFromPublish(pub).TotalBytes(packets.Version5)
			zzrt.Observe("size", sz)
			zzrt.Assert(sz <= B, "nothing-larger-than-the-declared-maximum-is-retransmitted")
			sent2++
		}
	}
	zzrt.Assert(sent2+len(nt.dropped)+hookDrops == n, "every-unacknowledged-message-retransmitted-or-reported-dropped")
	zzrt.Assert(nt.queued == sent2 && nt.inflight == sent2, "counters-equal-what-is-still-in-flight")
	// a new message on the resumed connection: the limit declared now applies
	nm := &gmqtt.Message{Topic: "t", QoS: 1, Payload: make([]byte, sizes[zzrt.Choice(len(sizes))])}
	before := len(nt.dropped)
	zzrt.Assert(q.Add(&queue.Elem{MessageWithID: &queue.Publish{Message: nm}}) == nil, "add-after-resume-ok")
	ids2 := c2.pl.pollPacketIDs(8)
	if len(ids2) > 0 {
		rest2, err := c2.pollNewMessages(ids2)
		zzrt.Assert(err == nil, "poll-after-resume-ok")
		c2.pl.batchRelease(rest2)
		sent3 := 0
		for _, p := range zzDrain(c2) {
			if pub, ok := p.(*packets.Publish); ok {
				sz := gmqtt.MessageFromPublish(pub).TotalBytes(packets.Version5)
				zzrt.Observe("newsize", sz)
				zzrt.Assert(sz <= B, "nothing-larger-than-the-maximum-declared-on-this-connection-is-sent")
				sent3++
			}
		}
		zzrt.Assert(sent3+len(nt.dropped)-before == 1, "new-message-sent-or-reported-dropped")
		zzrt.Cover("new-after-resume")
	}
	select {
	case <-c2.close:
		zzrt.Fail("connection-stays-up")
	default:
	}
	zzrt.Cover("resumed")
}

// ZZC13AliasSize: queue (size test) -> pollNewMessages -> writeLoop (topic alias rewrite)
// -> packet writer, all real, on a connection that declared Maximum Packet Size A and a
// Topic Alias Maximum: no PUBLISH on the wire is longer than A, whatever the alias
// manager decides (new alias sent WITH the topic name, known alias replacing it).
func ZZC13AliasSize() {
	nt := &zzDropNotifier{}
	q := ZZMemQueue(4, nt)
	A := zzrt.Uint32()
	zzrt.Assume(A >= 12 && A <= 60)
	zzrt.Observe("A", A)
	srv := defaultServer()
	srv.statsManager = newStatsManager(zzSubStats{})
	conn := &zzConn{}
	c, _ := srv.newClient(conn)
	c.version = packets.Version5
	c.queueStore = q
	c.opts.ClientID = "c1"
	c.opts.MaxInflight = 8
	c.opts.ClientMaxPacketSize = A
	c.opts.ClientTopicAliasMax = uint16(1 + zzrt.Choice(2))
	c.topicAliasManager = ZZFifoAlias(srv.config, c.opts.ClientTopicAliasMax, "c1")
	c.newPacketIDLimiter(8)
	zzrt.Assert(q.Init(&queue.InitOptions{CleanStart: true, Version: packets.Version5, ReadBytesLimit: A, Notifier: nt}) == nil, "init-ok")
	q.ReadInflight(8)
	go c.writeLoop()
	sizes := []int{1, 9, 17}
	topics := []string{"t", "uu"}
	n := 1 + zzrt.Choice(zzrt.Param("N"))
	total := 0
	for i := 0; i < n; i++ {
		m := &gmqtt.Message{Topic: topics[zzrt.Choice(len(topics))], QoS: byte(zzrt.Choice(2)), Payload: make([]byte, sizes[zzrt.Choice(len(sizes))])}
		zzrt.Assert(q.Add(&queue.Elem{MessageWithID: &queue.Publish{Message: m}}) == nil, "add-ok")
		ids := c.pl.pollPacketIDs(8)
		rest, err := c.pollNewMessages(ids)
		zzrt.Assert(err == nil, "poll-ok")
		c.pl.batchRelease(rest)
		before := len(conn.written)
		zzrt.Yield()
		sz := len(conn.written) - before
		zzrt.Observe("wire", sz)
		zzrt.Assert(uint32(sz) <= A, "no-publish-on-the-wire-longer-than-the-declared-maximum")
		total += sz
	}
	select {
	case <-c.close:
		zzrt.Fail("connection-stays-up")
	default:
	}
	c.setError(nil)
	zzrt.Yield()
	zzrt.Cover("alias-size")
}
