package server

// C03 — outbound QoS1/2: unique non-zero packet identifiers, bounded window,
// retransmission on resume before anything new.

import (
	gmqtt "github.com/DrmagicE/gmqtt"
	"github.com/DrmagicE/gmqtt/persistence/queue"
	"github.com/DrmagicE/gmqtt/pkg/codes"
	"github.com/DrmagicE/gmqtt/pkg/packets"
	"github.com/DrmagicE/gmqtt/zzrt"
)

// zzLimiter builds a limiter whose bitmap holds exactly the given (symbolic, pairwise
// distinct, non-zero) ids.
func zzLimiter(limit uint16, marked []packets.PacketID, free packets.PacketID) *packetIDLimiter {
	p := newPacketIDLimiter(limit)
	for _, id := range marked {
		p.lockedPid.Set(id, 1)
	}
	p.used = uint16(len(marked))
	p.freePid = free
	return p
}

func zzDistinctIDs(n int) []packets.PacketID {
	ids := make([]packets.PacketID, n)
	for i := range ids {
		ids[i] = zzrt.Uint16()
		zzrt.Assume(ids[i] != 0)
		for j := 0; j < i; j++ {
			zzrt.Assume(ids[i] != ids[j])
		}
	}
	return ids
}

// ZZ_C03_LimiterStep: one limiter operation from an arbitrary state with J ids in use.
func ZZ_C03_LimiterStep() {
	J := zzrt.Choice(zzrt.Param("J") + 1)
	marked := zzDistinctIDs(J)
	limit := zzrt.Uint16()
	zzrt.Assume(limit >= uint16(J) && limit >= 1)
	free := zzrt.Uint16()
	zzrt.Assume(free != 0)
	p := zzLimiter(limit, marked, free)
	inMarked := func(id packets.PacketID) bool {
		r := false
		for _, m := range marked {
			r = zzrt.Or(r, id == m)
		}
		return r
	}
	zzrt.Observe("limit", limit)
	zzrt.Observe("free", free)
	switch zzrt.Choice(3) {
	case 0: // pollPacketIDs
		max := uint16(zzrt.IntRange(1, zzrt.Param("MAX")))
		zzrt.Assume(uint16(J) < limit) // otherwise the call waits (window full)
		ids := p.pollPacketIDs(max)
		want := int(max)
		if zzrt.ConcreteBool(int(limit)-J < want) {
			want = int(limit) - J
		}
		zzrt.Assert(len(ids) == want, "poll-returns-min-of-max-and-free-window")
		for i, id := range ids {
			zzrt.Assert(id != 0, "id-non-zero")
			zzrt.Assert(!inMarked(id), "id-not-already-in-use")
			for j := 0; j < i; j++ {
				zzrt.Assert(id != ids[j], "ids-pairwise-distinct")
			}
			zzrt.Assert(p.lockedPid.Get(id) == 1, "id-marked-in-use")
		}
		zzrt.Assert(p.used == uint16(J+len(ids)) && p.used <= limit, "window-count-exact-and-bounded")
		zzrt.Assert(p.freePid != 0, "cursor-never-zero")
		zzrt.Cover("poll")
	case 1: // release of an arbitrary id
		id := zzrt.Uint16()
		p.release(id)
		zzrt.Assert(zzrt.Implies(inMarked(id), p.used == uint16(J-1)), "release-frees-one")
		zzrt.Assert(zzrt.Implies(!inMarked(id), p.used == uint16(J)), "release-of-unused-id-is-noop")
		zzrt.Assert(p.lockedPid.Get(id) == 0, "released-id-free")
		for _, m := range marked {
			zzrt.Assert(zzrt.Implies(m != id, p.lockedPid.Get(m) == 1), "other-ids-stay-in-use")
		}
		zzrt.Cover("release")
	case 2: // batchRelease of two arbitrary ids
		a, b := zzrt.Uint16(), zzrt.Uint16()
		p.batchRelease([]packets.PacketID{a, b})
		n := uint16(J)
		if zzrt.ConcreteBool(inMarked(a)) {
			n--
		}
		if zzrt.ConcreteBool(zzrt.And(inMarked(b), b != a)) {
			n--
		}
		zzrt.Assert(p.used == n, "batch-release-counts-each-once")
		zzrt.Cover("batch")
	}
}

// ZZ_C03_MaxInflight: the window the broker grants is bounded by BOTH the client's
// Receive Maximum and the configured max_inflight.
func ZZ_C03_MaxInflight() {
	srv := defaultServer()
	zzSymbolicMQTTConfig(srv)
	srv.config.MQTT.TopicAliasMax = 10 // irrelevant here; a symbolic value would fork per table size
	var conn *packets.Connect
	v5 := zzrt.ConcreteBool(zzrt.Bool())
	hasRM := false
	var rm uint16
	if v5 {
		conn = zzV5Connect("c1")
		if zzrt.ConcreteBool(zzrt.Bool()) {
			hasRM = true
			rm = zzrt.Uint16()
			zzrt.Assume(rm != 0) // 0 is a protocol error rejected by the decoder
			conn.Properties.ReceiveMaximum = &rm
		}
	} else {
		conn = zzV3Connect("c1")
	}
	c, ok := zzConnect(srv, conn)
	zzrt.Assert(ok, "connect-accepted")
	cfg := srv.config.MQTT.MaxInflight
	zzrt.Observe("cfg", cfg)
	zzrt.Observe("rm", rm)
	zzrt.Observe("granted", c.opts.MaxInflight)
	zzrt.Assert(c.opts.MaxInflight >= 1, "window-at-least-one")
	zzrt.Assert(c.opts.MaxInflight <= cfg, "window-bounded-by-configured-max-inflight")
	if hasRM {
		zzrt.Assert(c.opts.MaxInflight <= rm, "window-bounded-by-receive-maximum")
		zzrt.Cover("v5-with-receive-maximum")
	}
	zzrt.Assert(c.pl != nil && c.pl.limit == c.opts.MaxInflight, "limiter-created-with-granted-window")
	zzrt.Cover("checked")
}

// ZZ_C03_Resume: after a reconnect the in-flight entries are sent first, in order,
// with their identifiers (PUBLISH DUP=1, or PUBREL), the limiter knows those ids, and
// new messages follow with DUP=0 and fresh ids.
func ZZ_C03_Resume() {
	M := zzrt.Choice(zzrt.Param("M") + 1)
	ids := zzDistinctIDs(M)
	maxInflight := uint16(zzrt.IntRange(1, zzrt.Param("M")+1))
	ver := packets.Version311
	if zzrt.ConcreteBool(zzrt.Bool()) {
		ver = packets.Version5
	}
	q := &zzRecQueue{}
	isRel := make([]bool, M)
	for i := 0; i < M; i++ {
		if zzrt.ConcreteBool(zzrt.Bool()) {
			isRel[i] = true
			q.inflight = append(q.inflight, &queue.Elem{MessageWithID: &queue.Pubrel{PacketID: ids[i]}})
		} else {
			qos := uint8(1 + zzrt.Choice(2))
			q.inflight = append(q.inflight, &queue.Elem{MessageWithID: &queue.Publish{Message: &gmqtt.Message{Topic: "t", QoS: qos, PacketID: ids[i], Payload: []byte{byte(i)}}}})
		}
	}
	c := &client{version: ver, queueStore: q, out: make(chan packets.Packet, 16), close: make(chan struct{}), opts: &ClientOptions{ClientID: "c1", MaxInflight: maxInflight}}
	c.newPacketIDLimiter(maxInflight)
	zzrt.Observe("inflight", M)
	zzrt.Observe("maxinflight", maxInflight)
	// the poll goroutine of the connection drains the in-flight entries; the client
	// acknowledges the oldest outstanding PUBLISH whenever the broker stops sending
	finished := false
	go func() {
		cont := true
		for n := 0; cont && n < 8; n++ {
			var err error
			cont, err = c.pollInflights()
			zzrt.Assert(err == nil, "poll-inflight-ok")
		}
		finished = true
	}()
	var out []packets.Packet
	var unacked []packets.PacketID
	var relStage []bool
	pubs := 0
	for round := 0; round <= M+1; round++ {
		zzrt.Yield()
		for _, p := range zzDrain(c) {
			out = append(out, p)
			switch x := p.(type) {
			case *packets.Publish:
				unacked = append(unacked, x.PacketID)
				relStage = append(relStage, false)
				pubs++
			case *packets.Pubrel:
				// a QoS 2 exchange whose PUBREL is retransmitted still holds its
				// identifier and its place in the window until PUBCOMP
				unacked = append(unacked, x.PacketID)
				relStage = append(relStage, true)
			}
		}
		// the window: QoS>0 exchanges not completed on this connection
		zzrt.Assert(len(unacked) <= int(maxInflight), "resume-respects-receive-maximum")
		zzrt.Assert(c.pl.used == uint16(len(unacked)), "limiter-counts-retransmitted-publishes")
		if finished {
			break
		}
		if len(unacked) > 0 {
			if relStage[0] {
				c.pubcompHandler(&packets.Pubcomp{PacketID: unacked[0]})
			} else {
				c.pubackHandler(&packets.Puback{PacketID: unacked[0]})
			}
			unacked = unacked[1:]
			relStage = relStage[1:]
		}
	}
	zzrt.Assert(finished, "all-inflight-eventually-retransmitted")
	zzrt.Assert(len(out) == M, "every-inflight-entry-retransmitted-once")
	for i, p := range out {
		if isRel[i] {
			r, ok := p.(*packets.Pubrel)
			zzrt.Assert(ok && r.PacketID == ids[i], "pubrel-retransmitted-with-same-id-in-order")
		} else {
			pub, ok := p.(*packets.Publish)
			zzrt.Assert(ok && pub.PacketID == ids[i] && pub.Dup, "publish-retransmitted-with-same-id-dup-in-order")
		}
	}
	for _, id := range unacked {
		zzrt.Assert(c.pl.lockedPid.Get(id) == 1, "limiter-knows-retransmitted-id")
	}
	pubs = len(unacked)
	// then a new message
	if pubs < int(maxInflight) {
		newIDs := c.pl.pollPacketIDs(1)
		zzrt.Assert(len(newIDs) == 1, "one-fresh-id")
		for _, id := range unacked {
			zzrt.Assert(newIDs[0] != id, "fresh-id-distinct-from-inflight")
		}
		q.script = []*queue.Elem{{MessageWithID: &queue.Publish{Message: &gmqtt.Message{Topic: "n", QoS: 1}}}}
		_, err := c.pollNewMessages(newIDs)
		zzrt.Assert(err == nil, "poll-new-ok")
		o2 := zzDrain(c)
		zzrt.Assert(len(o2) == 1, "new-message-sent")
		np := o2[0].(*packets.Publish)
		zzrt.Assert(!np.Dup && np.PacketID == newIDs[0] && np.PacketID != 0, "new-message-dup0-fresh-id")
		zzrt.Cover("new-after-inflight")
	}
	zzrt.Cover("resumed")
}

// ZZ_C03_Window: K steps of the per-connection poll loop body interleaved with
// arbitrary acknowledgements; the set of identifiers in use stays pairwise distinct,
// non-zero and never larger than the granted window, and the limiter agrees with it.
func ZZ_C03_Window() {
	K := zzrt.Param("K")
	M := uint16(zzrt.IntRange(1, 3))
	ver := packets.Version5
	q := &zzRecQueue{}
	c := &client{version: ver, queueStore: q, out: make(chan packets.Packet, 64), close: make(chan struct{}), opts: &ClientOptions{ClientID: "c1", MaxInflight: M}}
	c.newPacketIDLimiter(M)
	var U []packets.PacketID // ghost: identifiers awaiting PUBACK / PUBCOMP
	inU := func(id packets.PacketID) bool {
		r := false
		for _, u := range U {
			r = zzrt.Or(r, u == id)
		}
		return r
	}
	remove := func(id packets.PacketID) {
		var n []packets.PacketID
		for _, u := range U {
			if !zzrt.ConcreteBool(u == id) {
				n = append(n, u)
			}
		}
		U = n
	}
	for step := 0; step < K; step++ {
		switch zzrt.Choice(4) {
		case 0: // poll loop body
			if len(U) >= int(M) {
				continue // pollPacketIDs would wait: window full
			}
			max := uint16(100)
			if zzrt.ConcreteBool(M < max) {
				max = M
			}
			ids := c.pl.pollPacketIDs(max)
			n := zzrt.Choice(len(ids) + 1)
			var script []*queue.Elem
			for i := 0; i < n; i++ {
				script = append(script, &queue.Elem{MessageWithID: &queue.Publish{Message: &gmqtt.Message{Topic: "t", QoS: uint8(zzrt.Choice(3))}}})
			}
			if script == nil {
				script = []*queue.Elem{}
			}
			q.script = script
			unused, err := c.pollNewMessages(ids)
			zzrt.Assert(err == nil, "poll-ok")
			c.pl.batchRelease(unused)
			for _, p := range zzDrain(c) {
				pub := p.(*packets.Publish)
				if pub.Qos > 0 {
					zzrt.Assert(pub.PacketID != 0, "sent-id-non-zero")
					zzrt.Assert(!inU(pub.PacketID), "sent-id-not-already-awaiting-ack")
					zzrt.Assert(!pub.Dup, "first-transmission-dup0")
					U = append(U, pub.PacketID)
				} else {
					zzrt.Assert(pub.PacketID == 0, "qos0-has-no-id")
				}
			}
		case 1:
			id := zzrt.Uint16()
			c.pubackHandler(&packets.Puback{PacketID: id})
			remove(id)
		case 2:
			id := zzrt.Uint16()
			c.pubcompHandler(&packets.Pubcomp{PacketID: id})
			remove(id)
		case 3:
			id := zzrt.Uint16()
			code := codes.Code(zzrt.Byte())
			c.pubrecHandler(&packets.Pubrec{Version: ver, PacketID: id, Code: code})
			if zzrt.ConcreteBool(code >= 0x80) {
				remove(id)
			}
			zzDrain(c)
		}
		zzrt.Assert(len(U) <= int(M), "window-never-exceeded")
		zzrt.Assert(c.pl.used == uint16(len(U)), "limiter-agrees-with-ids-awaiting-ack")
	}
	zzrt.Cover("window-done")
}
