package server

// C19 on the wire: the real serve() of one connection (socket reader included) on a
// scripted byte stream; the authentication hook decides; nothing is processed and no
// state is created unless the first packet is a CONNECT that passed it.

import (
	"context"

	gmqtt "github.com/DrmagicE/gmqtt"
	"github.com/DrmagicE/gmqtt/persistence/subscription"
	"github.com/DrmagicE/gmqtt/pkg/codes"
	"github.com/DrmagicE/gmqtt/pkg/packets"
	"github.com/DrmagicE/gmqtt/zzrt"
)

func zzWirePacket(k int) packets.Packet {
	pp := func() *packets.Properties { return &packets.Properties{} }
	switch k {
	case 0:
		return &packets.Publish{Version: packets.Version5, FixHeader: &packets.FixHeader{PacketType: packets.PUBLISH, Flags: 3}, Qos: 1, PacketID: 1, Retain: true, TopicName: []byte("t"), Payload: []byte("x"), Properties: pp()}
	case 1:
		return &packets.Subscribe{Version: packets.Version5, FixHeader: &packets.FixHeader{PacketType: packets.SUBSCRIBE, Flags: 2}, PacketID: 1, Topics: []packets.Topic{{Name: "#"}}, Properties: pp()}
	case 2:
		return &packets.Pingreq{FixHeader: &packets.FixHeader{PacketType: packets.PINGREQ}}
	default:
		return &packets.Unsubscribe{Version: packets.Version5, FixHeader: &packets.FixHeader{PacketType: packets.UNSUBSCRIBE, Flags: 2}, PacketID: 2, Topics: []string{"#"}, Properties: pp()}
	}
}

func ZZ_C19_Wire() {
	srv, pers := zzLifecycleServer()
	pers.blocking = true
	reject := zzrt.ConcreteBool(zzrt.Bool())
	authCalls := 0
	srv.hooks.OnBasicAuth = func(ctx context.Context, cl Client, req *ConnectRequest) error {
		authCalls++
		if reject {
			return codes.NewError(codes.NotAuthorized)
		}
		return nil
	}
	conn := &zzPipeConn{in: make(chan []byte, 16)}
	c, _ := srv.newClient(conn)
	delivered := 0
	c.deliverMessage = func(string, *gmqtt.Message, subscription.IterationOptions) bool { delivered++; return true }
	done := false
	go func() { c.serve(); done = true }()
	n := 1 + zzrt.Choice(3)
	connectAt := -1
	// the packets arrive one by one, or all in one segment (pipelined behind the first)
	oneSegment := zzrt.Choice(2) == 1
	var segment []byte
	for i := 0; i < n; i++ {
		var b []byte
		if zzrt.Choice(2) == 0 {
			if connectAt < 0 {
				connectAt = i
			}
			cp := zzV5Connect("c1")
			cp.Username, cp.Password, cp.UsernameFlag, cp.PasswordFlag = []byte("u"), []byte("p"), true, true
			b = zzEncode(cp)
		} else {
			b = zzEncode(zzWirePacket(zzrt.Choice(4)))
		}
		if oneSegment {
			segment = append(segment, b...)
			continue
		}
		conn.in <- b
		zzrt.Yield()
	}
	if oneSegment {
		conn.in <- segment
		zzrt.Yield()
	}
	off := 0
	out := zzDecodeAll(conn, &off)
	accepted := connectAt == 0 && !reject
	zzrt.Observe("connectat", connectAt)
	zzrt.Observe("reject", reject)
	// what was sent
	acks := 0
	for i, p := range out {
		switch a := p.(type) {
		case *packets.Connack:
			zzrt.Assert(i == 0, "connack-is-the-first-thing-sent")
			zzrt.Assert((a.Code == codes.Success) == accepted, "connack-reports-the-authentication-verdict")
		case *packets.Disconnect:
		default:
			acks++
			zzrt.Assert(accepted, "nothing-is-answered-without-an-accepted-connect")
		}
	}
	sessions := 0
	srv.sessionStore.Iterate(func(*gmqtt.Session) bool { sessions++; return true })
	subs := len(subscription.GetClientSubscriptions(srv.subscriptionsDB, "c1", subscription.TypeAll))
	if accepted {
		zzrt.Assert(authCalls == 1, "authentication-hook-consulted-exactly-once")
		zzrt.Cover("accepted")
	} else {
		zzrt.Assert(sessions == 0 && subs == 0 && delivered == 0 && len(srv.clients) == 0, "no-broker-state-without-an-accepted-connect")
		anySubs := 0
		srv.subscriptionsDB.Iterate(func(string, *gmqtt.Subscription) bool { anySubs++; return true }, subscription.IterationOptions{Type: subscription.TypeAll})
		zzrt.Assert(anySubs == 0, "no-subscription-under-any-client-id-without-an-accepted-connect")
		zzrt.Assert(srv.retainedDB.GetRetainedMessage("t") == nil, "no-retained-message-without-an-accepted-connect")
		if connectAt != 0 {
			zzrt.Assert(authCalls == 0 || connectAt > 0, "first-packet-must-be-connect")
		}
		// (observation, not asserted: the broker does not close the socket itself after a
		// refusal; serve() waits for the peer to go away.  The statement only requires that
		// nothing the refused connection sends has an effect.)
		zzrt.Cover("refused")
	}
	close(conn.in)
	zzrt.Yield()
	zzrt.Assert(done, "serve-returns-once-the-connection-is-over")
}
