//go:build zzsym

package server

// Symbolic-mode model of gorilla/websocket's ReadMessage / WriteMessage: a scripted
// list of messages; after the script ReadMessage fails (io.EOF).  Mapped by the
// check spec ("models") onto the real method names.

import (
	"bytes"
	"io"

	"github.com/gorilla/websocket"
)

type zzWSState struct {
	script []zzWSMsg
	pos    int
	sent   []zzWSMsg
}

var zzWSStates = map[*websocket.Conn]*zzWSState{}

func zzWSConn(msgs []zzWSMsg) (*websocket.Conn, func()) {
	c := &websocket.Conn{}
	zzWSStates[c] = &zzWSState{script: msgs}
	return c, func() {}
}

func zzWSSink() (*websocket.Conn, func(int) []zzWSMsg, func()) {
	c := &websocket.Conn{}
	st := &zzWSState{}
	zzWSStates[c] = st
	return c, func(int) []zzWSMsg { return st.sent }, func() {}
}

func ZZM_wsReadMessage(c *websocket.Conn) (int, []byte, error) {
	st := zzWSStates[c]
	if st.pos >= len(st.script) {
		return -1, nil, io.EOF
	}
	m := st.script[st.pos]
	st.pos++
	// gorilla hands out a fresh slice per message
	return m.typ, append([]byte{}, m.payload...), nil
}

func ZZM_wsWriteMessage(c *websocket.Conn, typ int, data []byte) error {
	st := zzWSStates[c]
	st.sent = append(st.sent, zzWSMsg{typ, append([]byte{}, data...)})
	return nil
}

// ZZM_wsNextReader: the streaming form of ReadMessage (same script).
func ZZM_wsNextReader(c *websocket.Conn) (int, io.Reader, error) {
	typ, data, err := ZZM_wsReadMessage(c)
	if err != nil {
		return typ, nil, err
	}
	return typ, bytes.NewReader(data), nil
}
