package server

// C09 broker-level harness (entry: zzc09.ZZ_C09_Broker, which injects the redis
// persistence factory — package persistence imports this package).
//
// A real broker (server.init on a redis persistence whose pool reaches the zzredis
// stand-in) serves a history of client packets through the real connect / subscribe /
// publish / acknowledgement handlers and the real per-connection poll loop; the redis
// server dies before an arbitrary storage command; a second real broker is started on
// what survived and the clients come back.

import (
	"errors"

	gmqtt "github.com/DrmagicE/gmqtt"
	"github.com/DrmagicE/gmqtt/config"
	"github.com/DrmagicE/gmqtt/persistence/subscription"
	"github.com/DrmagicE/gmqtt/pkg/codes"
	"github.com/DrmagicE/gmqtt/pkg/packets"
	"github.com/DrmagicE/gmqtt/zzredis"
	"github.com/DrmagicE/gmqtt/zzrt"
)

// ZZRedisFactory builds the real redis persistence over a zzredis store (set by the
// entry package).
var ZZRedisFactory func(cfg config.Config, st *zzredis.Store) Persistence

// ZZAliasFactory is topicalias/fifo.New (registered by that package's init natively).
var ZZAliasFactory NewTopicAliasManager

func zz9Boot(st *zzredis.Store) (*server, error) {
	cfg := config.DefaultConfig()
	cfg.Persistence.Type = "zzredis"
	if topicAliasMgrFactory["fifo"] == nil {
		topicAliasMgrFactory["fifo"] = ZZAliasFactory
	}
	persistenceFactories["zzredis"] = func(c config.Config) (Persistence, error) { return ZZRedisFactory(c, st), nil }
	srv := New(WithConfig(cfg))
	err := srv.init()
	return srv, err
}

// zz9Step runs one broker action; false when the redis server died during it.
func zz9Step(st *zzredis.Store, f func()) (completed bool) {
	defer func() {
		if r := recover(); r != nil {
			if _, isCrash := r.(zzredis.Crash); isCrash || st.Crashed {
				completed = false
				return
			}
			panic(r)
		}
	}()
	f()
	return !st.Crashed
}

type zz9Cli struct {
	id   string
	v5   bool
	c    *client
	wire []packets.Packet // what the broker sent on the current connection, not yet looked at
}

func (z *zz9Cli) ver() packets.Version {
	if z.v5 {
		return packets.Version5
	}
	return packets.Version311
}

func (z *zz9Cli) drain() {
	if z.c != nil {
		z.wire = append(z.wire, zzDrain(z.c)...)
	}
}

// connect runs the real connectWithTimeOut (registerClient included) and starts the
// connection's poll loop as serve() does.
func (z *zz9Cli) connect(srv *server, clean bool, expiry uint32) *packets.Connack {
	var conn *packets.Connect
	if z.v5 {
		conn = zzV5Connect(z.id)
		e := expiry
		conn.Properties.SessionExpiryInterval = &e
		conn.WillProperties = &packets.Properties{}
	} else {
		conn = zzV3Connect(z.id)
	}
	conn.CleanStart = clean
	c, _ := srv.newClient(&zzConn{})
	z.c = c
	z.wire = nil
	zz9All = append(zz9All, c)
	c.in <- conn
	ok := c.connectWithTimeOut()
	var ack *packets.Connack
	for _, p := range zzDrain(c) {
		if a, isAck := p.(*packets.Connack); isAck {
			ack = a
		}
	}
	if !ok || ack == nil || ack.Code != codes.Success {
		return ack
	}
	go func() { c.pollMessageHandler() }()
	zzrt.Yield()
	return ack
}

// every connection made during one run: whatever way the harness ends (also when a
// native replay stops at a failed assertion) their goroutines are released.
var zz9All []*client

func zz9ReleaseAll() {
	for _, c := range zz9All {
		c.setError(errors.New("harness ends"))
		if c.queueStore != nil {
			c.queueStore.Close()
		}
		if c.pl != nil {
			c.pl.close()
		}
	}
	zz9All = nil
}

// hangup: the network connection drops; the connection's goroutines wind down as in
// serve() and the client is unregistered.
func (z *zz9Cli) hangup() {
	c := z.c
	if c == nil {
		return
	}
	z.c = nil
	c.setError(errors.New("connection reset"))
	if c.queueStore != nil {
		c.queueStore.Close()
	}
	if c.pl != nil {
		c.pl.close()
	}
	zzrt.Yield()
	c.internalClose()
}

// abandon: the broker process is gone; only unblock the goroutines of the dead process.
func (z *zz9Cli) abandon() {
	c := z.c
	if c == nil {
		return
	}
	z.c = nil
	c.setError(errors.New("process died"))
	if c.queueStore != nil {
		c.queueStore.Close()
	}
	if c.pl != nil {
		c.pl.close()
	}
	zzrt.Yield()
}

// zz9Msg: ghost record of one application message published by P.
type zz9Msg struct {
	tag     byte // second payload byte, unique
	body    byte // first payload byte (symbolic)
	qos     byte
	pid     packets.PacketID // P's identifier
	pubAck  bool             // P saw PUBACK / PUBREC
	pubDone bool             // P's PUBREL was answered (identifier released)
	want    bool             // S held an acknowledged matching subscription (granted QoS > 0)
	grant   byte
	// S side
	sid    packets.PacketID // identifier S received it with (0: not seen by S yet)
	sRec   bool             // S's PUBREC was processed (PUBREL seen)
	sDone  bool             // S's PUBACK / PUBCOMP was processed
	sMaybe bool             // the action cut by the crash was an acknowledgement of this message
	cutPub bool             // the crash cut P's PUBLISH itself: P got no acknowledgement and retransmits
	reuse  bool             // published after the restart under an identifier P had completed before
}

type zz9Sub struct {
	filter string
	qos    byte
	acked  bool // SUBACK seen
	maybe  bool // SUBSCRIBE / UNSUBSCRIBE of this filter was cut by the crash
}

func zz9Publish(v packets.Version, topic string, qos byte, pid packets.PacketID, payload []byte, dup bool) *packets.Publish {
	return &packets.Publish{Version: v, FixHeader: &packets.FixHeader{PacketType: packets.PUBLISH}, Dup: dup, Qos: qos, PacketID: pid,
		TopicName: []byte(topic), Payload: payload, Properties: &packets.Properties{}}
}

// ZZC09Broker is the harness body.
func ZZC09Broker() {
	K := zzrt.Param("K")
	zz9All = nil
	defer zz9ReleaseAll()
	st := zzredis.NewStore()
	srv, err := zz9Boot(st)
	if err != nil {
		panic("first start: " + err.Error())
	}
	zzrt.Assert(err == nil, "first-start-succeeds")
	E := zzrt.Uint32()
	zzrt.Assume(E >= 1)
	S := &zz9Cli{id: zzrt.String(zzrt.Param("IDLEN")), v5: zzrt.Param("VERS") > 1 && zzrt.Choice(2) == 1 || zzrt.Param("VERS") == 1}
	P := &zz9Cli{id: "publisher", v5: true}
	pack := P.connect(srv, true, 1000)
	zzrt.Assert(pack != nil && pack.Code == codes.Success, "publisher-connects")
	st.Lazy = true // from here on the redis server may die before any command

	filters := []string{"a", "b"}
	subs := []*zz9Sub{{filter: "a"}, {filter: "b"}}
	var msgs []*zz9Msg
	sessAck := false  // CONNACK(0) seen for S at least once and the session not ended since
	sessMaybe := false
	transient := false
	nextPid := packets.PacketID(10)
	nextTag := byte(1)
	var outS []packets.Packet // S's un-answered packets on the current connection, in order

	// look at what S received: match PUBLISH packets to ghost messages by tag
	seeS := func() {
		S.drain()
		for _, p := range S.wire {
			switch x := p.(type) {
			case *packets.Publish:
				for _, m := range msgs {
					if len(x.Payload) == 2 && x.Payload[1] == m.tag {
						zzrt.Assert(x.Payload[0] == m.body, "delivered-payload-is-the-published-one")
						if x.Qos > 0 {
							m.sid = x.PacketID
							outS = append(outS, x)
						}
					}
				}
			case *packets.Pubrel:
				outS = append(outS, x)
			}
		}
		S.wire = nil
	}

	for step := 0; step < K && !st.Crashed; step++ {
		switch zzrt.Choice(7) {
		case 0: // S connects
			if S.c != nil {
				zzrt.Assume(false)
			}
			clean := zzrt.Choice(2) == 1
			var ack *packets.Connack
			if zz9Step(st, func() { ack = S.connect(srv, clean, E) }) {
				zzrt.Assert(ack != nil && ack.Code == codes.Success, "subscriber-connect-accepted")
				if clean || !sessAck {
					zzrt.Assert(!ack.SessionPresent || !clean, "clean-start-has-no-session-present")
				}
				if !ack.SessionPresent {
					for _, s := range subs {
						s.acked = false
					}
					for _, m := range msgs {
						m.want = false
					}
				}
				sessAck = true
				// a v3.1.1 session with Clean Session 1 ends with its connection (and the
				// crash ends the connection): nothing is claimed about it after the restart
				transient = !S.v5 && clean
				outS = nil
				seeS()
			} else if clean || !sessAck {
				// a cut CONNECT that starts a new session: the old state may or may not be gone
				sessMaybe = true
				for _, s := range subs {
					s.maybe = true
				}
				for _, m := range msgs {
					m.sMaybe = true
				}
			}
			// a cut CONNECT that resumes an acknowledged session changes nothing the client
			// relies on: the session, its subscriptions and its messages must all survive
		case 1: // S subscribes
			if S.c == nil {
				zzrt.Assume(false)
			}
			i := zzrt.Choice(len(filters))
			q := byte(1 + zzrt.Choice(2))
			sub := &packets.Subscribe{Version: S.ver(), FixHeader: &packets.FixHeader{PacketType: packets.SUBSCRIBE, Flags: 2}, PacketID: 1,
				Topics: []packets.Topic{{Name: filters[i], SubOptions: packets.SubOptions{Qos: q}}}, Properties: &packets.Properties{}}
			if zz9Step(st, func() { S.c.subscribeHandler(sub); zzrt.Yield() }) {
				S.drain()
				acked := false
				for _, p := range S.wire {
					if a, ok := p.(*packets.Suback); ok && len(a.Payload) == 1 && a.Payload[0] == q {
						acked = true
					}
				}
				zzrt.Assert(acked, "subscribe-acknowledged")
				subs[i].acked, subs[i].qos = true, q
				seeS()
			} else {
				subs[i].maybe = true
				if subs[i].qos == 0 {
					subs[i].qos = q
				}
			}
		case 2: // S unsubscribes
			if S.c == nil {
				zzrt.Assume(false)
			}
			i := zzrt.Choice(len(filters))
			un := &packets.Unsubscribe{Version: S.ver(), FixHeader: &packets.FixHeader{PacketType: packets.UNSUBSCRIBE, Flags: 2}, PacketID: 2,
				Topics: []string{filters[i]}, Properties: &packets.Properties{}}
			if zz9Step(st, func() { S.c.unsubscribeHandler(un); zzrt.Yield() }) {
				subs[i].acked = false
				seeS()
			} else {
				subs[i].maybe = true
			}
		case 3: // P publishes to topic "a"
			q := byte(1 + zzrt.Choice(2))
			m := &zz9Msg{tag: nextTag, body: zzrt.Byte(), qos: q, pid: nextPid}
			nextTag++
			nextPid++
			if subs[0].acked {
				m.want = true
				m.grant = q
				if subs[0].qos < q {
					m.grant = subs[0].qos
				}
			}
			msgs = append(msgs, m)
			var cerr *codes.Error
			if zz9Step(st, func() {
				cerr = P.c.publishHandler(zz9Publish(packets.Version5, "a", q, m.pid, []byte{m.body, m.tag}, false))
				zzrt.Yield()
			}) {
				zzrt.Assert(cerr == nil, "publish-accepted")
				P.drain()
				for _, p := range P.wire {
					switch a := p.(type) {
					case *packets.Puback:
						m.pubAck = a.PacketID == m.pid
					case *packets.Pubrec:
						m.pubAck = a.PacketID == m.pid
					}
				}
				P.wire = nil
				zzrt.Assert(m.pubAck, "publisher-acknowledged")
				seeS()
				if m.want && S.c != nil {
					zzrt.Assert(m.sid != 0, "online-subscriber-receives-the-message")
				}
			} else {
				// the crash cut the publish: P was not acknowledged (it will retransmit)
				m.cutPub = true
			}
		case 4: // S answers the oldest un-answered packet of its connection
			if S.c == nil || len(outS) == 0 {
				zzrt.Assume(false)
			}
			p := outS[0]
			outS = outS[1:]
			var m *zz9Msg
			switch x := p.(type) {
			case *packets.Publish:
				for _, mm := range msgs {
					if x.Payload[1] == mm.tag {
						m = mm
					}
				}
				if x.Qos == 1 {
					if zz9Step(st, func() { S.c.pubackHandler(&packets.Puback{Version: S.ver(), PacketID: x.PacketID}); zzrt.Yield() }) {
						m.sDone = true
					} else {
						m.sMaybe = true
					}
				} else {
					if zz9Step(st, func() {
						S.c.pubrecHandler(&packets.Pubrec{Version: S.ver(), PacketID: x.PacketID, Properties: &packets.Properties{}})
						zzrt.Yield()
					}) {
						m.sRec = true
						seeS()
					} else {
						m.sMaybe = true
					}
				}
			case *packets.Pubrel:
				for _, mm := range msgs {
					if mm.sid == x.PacketID && mm.sRec && !mm.sDone {
						m = mm
					}
				}
				if zz9Step(st, func() { S.c.pubcompHandler(&packets.Pubcomp{Version: S.ver(), PacketID: x.PacketID}); zzrt.Yield() }) {
					if m != nil {
						m.sDone = true
					}
				} else if m != nil {
					m.sMaybe = true
				}
			}
			if !st.Crashed {
				seeS()
			}
		case 5: // S's connection drops
			if S.c == nil {
				zzrt.Assume(false)
			}
			if zz9Step(st, func() { S.hangup() }) {
				outS = nil
			}
		case 6: // P completes its oldest QoS 2 publish (PUBREL)
			var m *zz9Msg
			for _, mm := range msgs {
				if mm.qos == 2 && mm.pubAck && !mm.pubDone {
					m = mm
					break
				}
			}
			if m == nil {
				zzrt.Assume(false)
			}
			done := zz9Step(st, func() {
				P.c.pubrelHandler(&packets.Pubrel{FixHeader: &packets.FixHeader{PacketType: packets.PUBREL, Flags: 2}, PacketID: m.pid, Properties: &packets.Properties{}})
			})
			// what P saw counts, also when the crash cut the handler: a PUBCOMP that was
			// handed to the connection ends the exchange for P, which may reuse the identifier
			P.drain()
			for _, p := range P.wire {
				if a, ok := p.(*packets.Pubcomp); ok && a.PacketID == m.pid {
					m.pubDone = true
				}
			}
			P.wire = nil
			if done {
				zzrt.Assert(m.pubDone, "pubrel-answered-with-pubcomp")
			}
		}
	}
	crashed := st.Crashed
	if crashed {
		zzrt.Cover("crashed")
	} else {
		zzrt.Cover("no-crash")
	}
	zzrt.Observe("commands", st.Applied)
	// the process is gone (crash) or is killed now (no crash): nothing more reaches redis
	st.Crashed = true
	S.abandon()
	P.abandon()

	// ---------------- restart on the surviving data ----------------
	st2 := st.Survivor()
	// the restarted broker finds its sessions through SCAN, which redis answers in pages
	// (possibly empty ones): everything in one page, or 1..2 keys per call
	st2.ScanPage = zzrt.Choice(3)
	srv2, err := zz9Boot(st2)
	zzrt.Assert(err == nil, "restart-succeeds-on-every-intermediate-store-state")

	// facts about the action the crash cut (they identify the recorded known finding)
	cutQos, cutIDRecorded := 0, false
	for _, m := range msgs {
		if m.cutPub {
			cutQos = int(m.qos)
			cutIDRecorded = st2.HashHasInt("unack:publisher", int64(m.pid))
		}
	}
	zzrt.Observe("cutqos", cutQos)
	zzrt.Observe("cutidrecorded", cutIDRecorded)

	// P comes back first (Clean Start 0) and retransmits every PUBLISH it got no
	// acknowledgement for, and the QoS 2 ones still awaiting PUBREL, with DUP set
	P2 := &zz9Cli{id: "publisher", v5: true}
	p2ack := P2.connect(srv2, false, 1000)
	zzrt.Assert(p2ack != nil && p2ack.Code == codes.Success, "publisher-reconnects")
	for _, m := range msgs {
		// a publisher that got no acknowledgement retransmits the PUBLISH; one that got
		// PUBREC but not PUBCOMP goes on with PUBREL (below) and may or may not have
		// retransmitted the PUBLISH first (its PUBREC may have been lost on the way)
		retransmit := !m.pubAck || (m.qos == 2 && !m.pubDone && zzrt.Choice(2) == 1)
		if !retransmit {
			continue
		}
		cerr := P2.c.publishHandler(zz9Publish(packets.Version5, "a", m.qos, m.pid, []byte{m.body, m.tag}, true))
		zzrt.Assert(cerr == nil, "retransmitted-publish-accepted")
		zzrt.Yield()
	}
	P2.drain()
	P2.wire = nil
	// P completes the QoS 2 exchanges it still has open (PUBREL, answered by PUBCOMP) and
	// then reuses every identifier it is done with for a NEW message
	var reused []*zz9Msg
	for _, m := range msgs {
		if m.qos == 2 && !m.pubDone {
			cerr := P2.c.pubrelHandler(&packets.Pubrel{FixHeader: &packets.FixHeader{PacketType: packets.PUBREL, Flags: 2}, PacketID: m.pid, Properties: &packets.Properties{}})
			zzrt.Assert(cerr == nil, "pubrel-after-restart-accepted")
			P2.drain()
			gotComp := false
			for _, p := range P2.wire {
				if a, ok := p.(*packets.Pubcomp); ok && a.PacketID == m.pid {
					gotComp = true
				}
			}
			P2.wire = nil
			zzrt.Assert(gotComp, "pubrel-after-restart-answered-with-pubcomp")
		}
	}
	for _, m := range msgs {
		if m.qos != 2 {
			continue
		}
		nm := &zz9Msg{tag: nextTag, body: zzrt.Byte(), qos: 2, pid: m.pid, want: subs[0].acked && !subs[0].maybe, reuse: true}
		nextTag++
		cerr := P2.c.publishHandler(zz9Publish(packets.Version5, "a", 2, nm.pid, []byte{nm.body, nm.tag}, false))
		zzrt.Assert(cerr == nil, "publish-with-a-released-identifier-accepted")
		zzrt.Yield()
		P2.c.pubrelHandler(&packets.Pubrel{FixHeader: &packets.FixHeader{PacketType: packets.PUBREL, Flags: 2}, PacketID: nm.pid, Properties: &packets.Properties{}})
		P2.drain()
		P2.wire = nil
		nm.pubAck, nm.pubDone = true, true
		reused = append(reused, nm)
	}

	// S comes back with Clean Start 0
	if sessAck && !sessMaybe && !transient {
		S2 := &zz9Cli{id: S.id, v5: S.v5}
		ack := S2.connect(srv2, false, E)
		zzrt.Assert(ack != nil && ack.Code == codes.Success, "subscriber-reconnects")
		zzrt.Assert(ack.SessionPresent, "acknowledged-session-present-after-restart")
		zzrt.Observe("present", ack.SessionPresent)
		got := subscription.GetClientSubscriptions(srv2.subscriptionsDB, S.id, subscription.TypeAll)
		for i, s := range subs {
			if s.maybe {
				continue
			}
			found := false
			for _, g := range got {
				if g.TopicFilter == filters[i] && g.ShareName == "" {
					found = true
					zzrt.Assert(g.QoS == s.qos || !s.acked, "restored-subscription-has-the-acknowledged-qos")
				}
			}
			zzrt.Assert(found == s.acked, "restored-subscriptions-are-exactly-the-acknowledged-ones")
		}
		for _, g := range got {
			zzrt.Assert(g.TopicFilter == "a" || g.TopicFilter == "b", "no-foreign-subscription-restored")
		}
		zzrt.Observe("nsubs", len(got))
		// what S receives now
		S2.drain()
		// retransmissions come first, in the original order, then what had not been sent
		lastTag, sawNew := byte(0), false
		for _, p := range S2.wire {
			if x, ok := p.(*packets.Publish); ok && len(x.Payload) == 2 {
				if x.Dup {
					zzrt.Assert(!sawNew, "retransmissions-precede-new-messages-after-restart")
				} else {
					sawNew = true
				}
				if x.Qos > 0 {
					zzrt.Assert(x.Payload[1] >= lastTag, "redelivery-keeps-the-original-order") // equal: a publisher retransmission of a QoS 1 message
					lastTag = x.Payload[1]
				}
			}
		}
		count := func(m *zz9Msg) (pubs, rels int) {
			for _, p := range S2.wire {
				switch x := p.(type) {
				case *packets.Publish:
					if len(x.Payload) == 2 && x.Payload[1] == m.tag {
						pubs++
						zzrt.Assert(x.Payload[0] == m.body, "redelivered-payload-is-the-published-one")
						if m.sid != 0 && !m.sMaybe && !m.cutPub && m.pubAck {
							// S had received it under m.sid before the crash: same identifier, DUP set
							zzrt.Assert(x.PacketID == m.sid && x.Dup, "in-flight-message-retransmitted-with-its-identifier-and-dup")
						}
					}
				case *packets.Pubrel:
					if m.sid != 0 && x.PacketID == m.sid && m.qos == 2 {
						rels++
					}
				}
			}
			return
		}
		for _, m := range reused {
			pubs, _ := count(m)
			if m.want && sessAck && !sessMaybe {
				zzrt.Assert(pubs == 1, "new-message-under-a-completed-identifier-is-delivered-after-restart")
			}
		}
		for _, m := range msgs {
			pubs, rels := count(m)
			zzrt.Observe("pubs", pubs)
			if !m.want {
				continue
			}
			if m.sDone {
				zzrt.Assert(pubs == 0, "acknowledged-by-subscriber-not-delivered-again")
				continue
			}
			if m.sMaybe {
				zzrt.Assert(pubs <= 1, "message-not-duplicated-after-restart")
				continue
			}
			if m.cutPub {
				// P retransmitted after the restart and has been acknowledged now: the
				// message reaches S; a QoS 1 publisher retransmission may add one duplicate,
				// a QoS 2 one may not
				zzrt.Assert(pubs >= 1, "retransmitted-publish-reaches-the-subscriber")
				if m.qos == 2 {
					zzrt.Assert(pubs == 1, "retransmitted-qos2-publish-delivered-exactly-once")
				} else {
					zzrt.Assert(pubs <= 2, "message-not-duplicated-after-restart")
				}
				continue
			}
			// P was acknowledged (before the crash, or now for its retransmission) and S did not complete
			if m.sRec {
				zzrt.Assert(rels+pubs >= 1, "unacknowledged-message-redelivered-after-restart")
			} else {
				zzrt.Assert(pubs >= 1, "unacknowledged-message-redelivered-after-restart")
			}
			zzrt.Assert(pubs <= 1, "message-not-duplicated-after-restart")
		}
		S2.hangup()
	}
	if sessMaybe && !transient {
		// the crash cut a CONNECT that was starting a new session for S.  Whatever is
		// left of the old one, S connects again (Clean Start 0); if the broker gives it a
		// fresh session (Session Present 0) that session starts empty and stays empty:
		// nothing of the discarded one may come back, not even after another restart
		S2 := &zz9Cli{id: S.id, v5: S.v5}
		ack := S2.connect(srv2, false, E)
		zzrt.Assert(ack != nil && ack.Code == codes.Success, "subscriber-reconnects")
		if !ack.SessionPresent {
			S2.drain()
			zzrt.Assert(len(S2.wire) == 0, "fresh-session-receives-nothing-old")
			S2.hangup()
			P2.hangup()
			for _, c := range zz9All {
				_ = c
			}
			st3 := st2.Survivor()
			srv3, err := zz9Boot(st3)
			zzrt.Assert(err == nil, "second-restart-succeeds")
			S3 := &zz9Cli{id: S.id, v5: S.v5}
			ack3 := S3.connect(srv3, false, E)
			zzrt.Assert(ack3 != nil && ack3.Code == codes.Success && ack3.SessionPresent, "fresh-session-survives-the-next-restart")
			got := subscription.GetClientSubscriptions(srv3.subscriptionsDB, S.id, subscription.TypeAll)
			zzrt.Observe("ghosts", len(got))
			zzrt.Assert(len(got) == 0, "fresh-session-has-no-subscriptions-after-the-next-restart")
			S3.drain()
			zzrt.Assert(len(S3.wire) == 0, "fresh-session-receives-nothing-old-after-the-next-restart")
			S3.hangup()
			zzrt.Cover("fresh-after-cut-connect")
			return
		}
		S2.hangup()
	}
	P2.hangup()
	_ = gmqtt.Message{}
}
