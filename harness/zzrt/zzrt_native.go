// Package zzrt, NATIVE mode: nondeterministic values are popped from a replay vector
// produced by the solver; Assert/Assume/Observe report what the real compiled code
// does on those values.
package zzrt

import (
	"reflect"
	"encoding/hex"
	"encoding/json"
	"fmt"
	"os"
	"runtime"
	"strings"
	"testing"
	"testing/synctest"
	"time"
)

type vec struct {
	Idx      int            `json:"idx"`
	Harness  string         `json:"harness"`
	Inputs   []uint64       `json:"inputs"`
	Params   map[string]int `json:"params"`
	Synctest bool           `json:"synctest"`
}

type result struct {
	Idx    int               `json:"idx"`
	Status string            `json:"status"`
	Label  string            `json:"label"`
	Detail string            `json:"detail"`
	Obs    map[string]string `json:"obs"`
}

type stop struct {
	status, label, detail string
}

var cur struct {
	v    *vec
	pos  int
	obs  map[string]string
	nobs int
}

func next() uint64 {
	if cur.pos >= len(cur.v.Inputs) {
		panic(stop{"exhausted", "", fmt.Sprintf("input %d requested, vector has %d", cur.pos, len(cur.v.Inputs))})
	}
	x := cur.v.Inputs[cur.pos]
	cur.pos++
	return x
}

func Bool() bool     { return next()&1 == 1 }
func Byte() byte     { return byte(next()) }
func Uint16() uint16 { return uint16(next()) }
func Uint32() uint32 { return uint32(next()) }
func Uint64() uint64 { return next() }
func Int64() int64   { return int64(next()) }
func Int32() int32   { return int32(next()) }
func Int() int       { return int(int64(next())) }
func IntRange(lo, hi int) int {
	v := int(int64(next()))
	if v < lo || v > hi {
		panic(stop{"assume-failed", "", fmt.Sprintf("IntRange(%d,%d) got %d", lo, hi, v)})
	}
	return v
}
func Choice(n int) int {
	v := int(int64(next()))
	if v < 0 || v >= n {
		panic(stop{"assume-failed", "", fmt.Sprintf("Choice(%d) got %d", n, v)})
	}
	return v
}
func Concrete(x int) int       { return x }
func ConcreteBool(b bool) bool { return b }
func Bytes(n int) []byte {
	b := make([]byte, n)
	for i := range b {
		b[i] = byte(next())
	}
	return b
}
func String(n int) string { return string(Bytes(n)) }
func Assume(c bool) {
	if !c {
		panic(stop{"assume-failed", "", "Assume(false)"})
	}
}
func Assert(c bool, label string) {
	if !c {
		panic(stop{"assert-failed", label, ""})
	}
}
func Fail(label string)  { panic(stop{"assert-failed", label, ""}) }
func Cover(label string) {}
func Observe(label string, v any) {
	key := fmt.Sprintf("%03d:%s", cur.nobs, label)
	cur.nobs++
	var s string
	switch x := v.(type) {
	case bool:
		if x {
			s = "1"
		} else {
			s = "0"
		}
	case int:
		s = fmt.Sprint(uint64(x))
	case int8:
		s = fmt.Sprint(uint64(uint8(x)))
	case int16:
		s = fmt.Sprint(uint64(uint16(x)))
	case int32:
		s = fmt.Sprint(uint64(uint32(x)))
	case int64:
		s = fmt.Sprint(uint64(x))
	case uint:
		s = fmt.Sprint(uint64(x))
	case uint8:
		s = fmt.Sprint(uint64(x))
	case uint16:
		s = fmt.Sprint(uint64(x))
	case uint32:
		s = fmt.Sprint(uint64(x))
	case uint64:
		s = fmt.Sprint(x)
	case uintptr:
		s = fmt.Sprint(uint64(x))
	case time.Duration:
		s = fmt.Sprint(uint64(x))
	case string:
		s = "x" + hex.EncodeToString([]byte(x))
	case []byte:
		s = "x" + hex.EncodeToString(x)
	default:
		s = fmt.Sprintf("?%T", v)
	}
	cur.obs[key] = s
}
func Param(name string) int {
	v, ok := cur.v.Params[name]
	if !ok {
		panic(stop{"internal", "", "param " + name + " missing"})
	}
	return v
}
func And(a, b bool) bool     { return a && b }
func Or(a, b bool) bool      { return a || b }
func Not(a bool) bool        { return !a }
func Implies(a, b bool) bool { return !a || b }
func IteInt(c bool, a, b int) int {
	if c {
		return a
	}
	return b
}
func IteU64(c bool, a, b uint64) uint64 {
	if c {
		return a
	}
	return b
}
func BytesEq(a, b []byte) bool { return string(a) == string(b) }
func Symbolic() bool           { return false }
func IsConst(x uint64) bool    { return true }
func Yield() {
	for i := 0; i < 50; i++ {
		runtime.Gosched()
	}
	if cur.v.Synctest {
		synctest.Wait()
	}
}
func ClockAdvance(d time.Duration) {
	time.Sleep(d)
	if cur.v.Synctest {
		synctest.Wait()
	}
}
func NumGoroutines() int { return runtime.NumGoroutine() }
func Note(s string)      {}

func runOne(v *vec, fn func()) (r result) {
	cur.v, cur.pos, cur.obs, cur.nobs = v, 0, map[string]string{}, 0
	r = result{Idx: v.Idx, Status: "ok"}
	defer func() {
		r.Obs = cur.obs
		if x := recover(); x != nil {
			if s, ok := x.(stop); ok {
				r.Status, r.Label, r.Detail = s.status, s.label, s.detail
				return
			}
			r.Status = "panic"
			buf := make([]byte, 4096)
			n := runtime.Stack(buf, false)
			r.Detail = strings.ReplaceAll(fmt.Sprintf("%v | %s", x, buf[:n]), "\n", " ; ")
			if len(r.Detail) > 1500 {
				r.Detail = r.Detail[:1500]
			}
		}
	}()
	fn()
	if cur.pos != len(v.Inputs) {
		// fewer inputs consumed than the symbolic path created: different path taken
		r.Detail = fmt.Sprintf("consumed %d of %d inputs", cur.pos, len(v.Inputs))
	}
	return
}

// RunReplay runs every vector in $ZZRT_VECTORS against the harness functions.
func RunReplay(t *testing.T, fns map[string]func()) {
	data, err := os.ReadFile(os.Getenv("ZZRT_VECTORS"))
	if err != nil {
		t.Fatal(err)
	}
	var vecs []vec
	if err := json.Unmarshal(data, &vecs); err != nil {
		t.Fatal(err)
	}
	for i := range vecs {
		v := &vecs[i]
		fn := fns[v.Harness]
		if fn == nil {
			continue
		}
		var r result
		if v.Synctest {
			t.Run(fmt.Sprint("v", v.Idx), func(t *testing.T) {
				done := false
				defer func() {
					if !done {
						if x := recover(); x != nil {
							if r.Status == "" || r.Status == "ok" {
								r = result{Idx: v.Idx, Status: "leftover", Detail: fmt.Sprint(x), Obs: cur.obs}
							} else {
								// the harness stopped early (assertion failed etc.); goroutines it left behind are expected
								r.Detail += " | bubble: " + fmt.Sprint(x)
							}
						}
					}
				}()
				synctest.Test(t, func(t *testing.T) {
					r = runOne(v, fn)
				})
				done = true
			})
		} else {
			r = runOne(v, fn)
		}
		out, _ := json.Marshal(r)
		fmt.Printf("ZZRT-RESULT %s\n", out)
	}
}

// Flatten: every integer/bool scalar reachable through struct fields, arrays and pointers.
func Flatten(v any) []uint64 {
	out := []uint64{}
	var walk func(rv reflect.Value, depth int)
	walk = func(rv reflect.Value, depth int) {
		if depth > 12 {
			return
		}
		switch rv.Kind() {
		case reflect.Bool:
			if rv.Bool() {
				out = append(out, 1)
			} else {
				out = append(out, 0)
			}
		case reflect.Int, reflect.Int8, reflect.Int16, reflect.Int32, reflect.Int64:
			bits := rv.Type().Bits()
			out = append(out, uint64(rv.Int())&(^uint64(0)>>(64-uint(bits))))
		case reflect.Uint, reflect.Uint8, reflect.Uint16, reflect.Uint32, reflect.Uint64, reflect.Uintptr:
			out = append(out, rv.Uint())
		case reflect.Struct:
			for i := 0; i < rv.NumField(); i++ {
				walk(rv.Field(i), depth+1)
			}
		case reflect.Array:
			for i := 0; i < rv.Len(); i++ {
				walk(rv.Index(i), depth+1)
			}
		case reflect.Pointer:
			if rv.IsNil() {
				out = append(out, 0)
			} else {
				out = append(out, 1)
				walk(rv.Elem(), depth+1)
			}
		case reflect.Slice:
			out = append(out, uint64(rv.Len()))
			for i := 0; i < rv.Len(); i++ {
				walk(rv.Index(i), depth+1)
			}
		case reflect.String:
			s := rv.String()
			out = append(out, uint64(len(s)))
			for i := 0; i < len(s); i++ {
				out = append(out, uint64(s[i]))
			}
		}
	}
	walk(reflect.ValueOf(v), 0)
	return out
}

// FillSymbolic: every integer/bool scalar field reachable through nested structs and
// arrays (not through pointers) is set from the replay vector.
func FillSymbolic(ptr any) {
	var walk func(rv reflect.Value)
	walk = func(rv reflect.Value) {
		switch rv.Kind() {
		case reflect.Bool:
			setField(rv, func(x reflect.Value) { x.SetBool(next()&1 == 1) })
		case reflect.Int, reflect.Int8, reflect.Int16, reflect.Int32, reflect.Int64:
			bits := rv.Type().Bits()
			v := next()
			sh := 64 - uint(bits)
			setField(rv, func(x reflect.Value) { x.SetInt(int64(v<<sh) >> sh) })
		case reflect.Uint, reflect.Uint8, reflect.Uint16, reflect.Uint32, reflect.Uint64, reflect.Uintptr:
			v := next()
			setField(rv, func(x reflect.Value) { x.SetUint(v) })
		case reflect.Struct:
			for i := 0; i < rv.NumField(); i++ {
				walk(rv.Field(i))
			}
		case reflect.Array:
			for i := 0; i < rv.Len(); i++ {
				walk(rv.Index(i))
			}
		}
	}
	walk(reflect.ValueOf(ptr).Elem())
}

func setField(rv reflect.Value, f func(reflect.Value)) {
	if rv.CanSet() {
		f(rv)
		return
	}
	// unexported field of an addressable struct
	f(reflect.NewAt(rv.Type(), rv.Addr().UnsafePointer()).Elem())
}

var allocMark uint64

// AllocMark / AllocWithin: natively the bytes allocated since the mark (runtime.MemStats.TotalAlloc).
func AllocMark() {
	var m runtime.MemStats
	runtime.ReadMemStats(&m)
	allocMark = m.TotalAlloc
}

func AllocWithin(limit int) bool {
	var m runtime.MemStats
	runtime.ReadMemStats(&m)
	return m.TotalAlloc-allocMark <= uint64(limit)
}
