// Package zzrt is the harness runtime.  This is the SYMBOLIC-mode source: the bodies
// are never executed — gosym intercepts every function by name (engine/intrinsics.go).
// The native twin (zzrt_native.go) has identical signatures and pops the solver's
// values from a replay vector.
package zzrt

import "time"

func Bool() bool                  { return false }
func Byte() byte                  { return 0 }
func Uint16() uint16              { return 0 }
func Uint32() uint32              { return 0 }
func Uint64() uint64              { return 0 }
func Int64() int64                { return 0 }
func Int32() int32                { return 0 }
func Int() int                    { return 0 }
func IntRange(lo, hi int) int     { return lo }
func Choice(n int) int            { return 0 }
func Concrete(x int) int          { return x }
func ConcreteBool(b bool) bool    { return b }
func Bytes(n int) []byte          { return nil }
func String(n int) string         { return "" }
func Assume(c bool)               {}
func Assert(c bool, label string) {}
func Fail(label string)           {}
func Cover(label string)          {}
func Observe(label string, v any) {}
func Param(name string) int       { return 0 }
func And(a, b bool) bool          { return a && b }
func Or(a, b bool) bool           { return a || b }
func Not(a bool) bool             { return !a }
func Implies(a, b bool) bool      { return !a || b }
func IteInt(c bool, a, b int) int { return a }
func IteU64(c bool, a, b uint64) uint64 { return a }
func BytesEq(a, b []byte) bool    { return false }
func Symbolic() bool              { return true }
func IsConst(x uint64) bool       { return false }
func Yield()                      {}
func ClockAdvance(d time.Duration) {}
func NumGoroutines() int          { return 0 }
func Note(s string)               {}
func Flatten(v any) []uint64     { return nil }
func FillSymbolic(ptr any)       {}
func AllocMark()                  {}
func AllocWithin(limit int) bool { return true }
