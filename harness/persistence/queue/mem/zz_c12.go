package mem

// C12 — the memory queue never hands out an element whose lifetime has elapsed.

import (
	"time"

	gmqtt "github.com/DrmagicE/gmqtt"
	"github.com/DrmagicE/gmqtt/persistence/queue"
	"github.com/DrmagicE/gmqtt/pkg/packets"
	"github.com/DrmagicE/gmqtt/zzrt"
)

// ZZ_C12_NeverLate: one element with symbolic enqueue instant / lifetime, read at a
// symbolic later instant: returned => not yet expired; expired => reported dropped.
func ZZ_C12_NeverLate() {
	n := &zzNotifier{}
	q := zzNewQueue(4, n)
	q.Init(&queue.InitOptions{CleanStart: true, Version: packets.Version5, ReadBytesLimit: 1 << 20, Notifier: n})
	qos := uint8(zzrt.Choice(3))
	life := zzrt.Int64()
	zzrt.Assume(life >= 0 && life < 1<<61) // 0 = no expiry
	at := time.Now()
	var exp time.Time
	if !zzrt.ConcreteBool(life == 0) {
		exp = at.Add(time.Duration(life))
	}
	e := &queue.Elem{At: at, Expiry: exp, MessageWithID: &queue.Publish{Message: &gmqtt.Message{Topic: "a", QoS: qos, Payload: []byte{1}}}}
	zzrt.Assert(q.Add(e) == nil, "add-ok")
	q.ReadInflight(1)
	waited := zzrt.Int64()
	zzrt.Assume(waited >= 0 && waited < 1<<61)
	zzrt.ClockAdvance(time.Duration(waited))
	// the subscriber may have been offline meanwhile: the session is resumed (with or
	// without an in-flight expiry configured) and the in-flight replay runs first
	if zzrt.Choice(2) == 1 {
		q.Close()
		q.inflightExpiry = time.Duration(zzrt.Choice(2)) * 30 * time.Second
		zzrt.Assert(q.Init(&queue.InitOptions{CleanStart: false, Version: packets.Version5, ReadBytesLimit: 1 << 20, Notifier: n}) == nil, "resume-ok")
		q.ReadInflight(2)
		zzrt.Cover("resumed")
	}
	// a second element without expiry keeps Read from blocking when the first is dropped
	q.Add(&queue.Elem{At: time.Now(), MessageWithID: &queue.Publish{Message: &gmqtt.Message{Topic: "b", QoS: 0}}})
	rs, err := q.Read([]packets.PacketID{1, 2})
	zzrt.Assert(err == nil, "read-ok")
	zzrt.Observe("life", life)
	zzrt.Observe("waited", waited)
	returned := len(rs) == 2 || (len(rs) >= 1 && rs[0] == e)
	expired := zzrt.And(life != 0, waited > life)
	zzrt.Observe("returned", returned)
	zzrt.Assert(zzrt.Implies(expired, !returned), "expired-never-returned")
	zzrt.Assert(zzrt.Implies(zzrt.Not(expired), returned), "live-message-returned")
	if !returned {
		zzrt.Assert(len(n.dropped) == 1 && n.dropped[0] == e && n.dropErrs[0] == queue.ErrDropExpired, "expired-reported-dropped")
		zzrt.Cover("dropped")
	} else {
		zzrt.Assert(len(n.dropped) == 0, "nothing-dropped")
		zzrt.Cover("returned")
	}
}
