package mem

import (
	"container/list"
	"sync"

	"github.com/DrmagicE/gmqtt/persistence/queue"
)

type zzNotifier struct {
	dropped  []*queue.Elem
	dropErrs []error
	inflight int
	queued   int
}

func (n *zzNotifier) NotifyDropped(e *queue.Elem, err error) {
	n.dropped = append(n.dropped, e)
	n.dropErrs = append(n.dropErrs, err)
}
func (n *zzNotifier) NotifyInflightAdded(d int) { n.inflight += d }
func (n *zzNotifier) NotifyMsgQueueAdded(d int) { n.queued += d }

func zzNewQueue(max int, n *zzNotifier) *Queue {
	return &Queue{cond: sync.NewCond(&sync.Mutex{}), l: list.New(), max: max, notifier: n, clientID: "c1"}
}

