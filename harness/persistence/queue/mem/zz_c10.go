package mem

// C10 — session message queue (memory backend): bounded, FIFO, conserving, documented
// drop priority, truthful counters.  One-step induction from arbitrary representable
// states plus a history twin from the constructor.

import (
	"container/list"
	"time"

	gmqtt "github.com/DrmagicE/gmqtt"
	"github.com/DrmagicE/gmqtt/persistence/queue"
	"github.com/DrmagicE/gmqtt/pkg/packets"
	"github.com/DrmagicE/gmqtt/zzrt"
)

type zzEnt struct {
	e        *queue.Elem
	inflight bool
	hasExp   bool
	tag      int
}

func zzExpired(now time.Time, x *zzEnt) bool {
	if !x.hasExp {
		return false
	}
	return now.After(x.e.Expiry)
}

func zzSymElem(now time.Time, tag int, inflight bool, id packets.PacketID) *zzEnt {
	x := &zzEnt{inflight: inflight, tag: tag}
	at := now.Add(-time.Duration(zzrt.IntRange(0, 1<<40)))
	var exp time.Time
	if zzrt.ConcreteBool(zzrt.Bool()) {
		x.hasExp = true
		exp = now.Add(time.Duration(zzrt.IntRange(-(1 << 40), 1<<40)))
	}
	var m queue.MessageWithID
	if inflight && zzrt.Choice(3) == 2 {
		m = &queue.Pubrel{PacketID: id}
	} else {
		qos := uint8(zzrt.Choice(3))
		if inflight && qos == 0 {
			qos = 2
		}
		m = &queue.Publish{Message: &gmqtt.Message{Topic: "t", QoS: qos, PacketID: id, Payload: make([]byte, zzrt.Choice(2)*3), ContentType: string(rune('a' + tag))}}
	}
	x.e = &queue.Elem{At: at, Expiry: exp, MessageWithID: m}
	return x
}

// zzContents lists the queue's elements front to back.
func zzContents(q *Queue) []*queue.Elem {
	var out []*queue.Elem
	for e := q.l.Front(); e != nil; e = e.Next() {
		out = append(out, e.Value.(*queue.Elem))
	}
	return out
}

func zzIndexOf(list []*queue.Elem, e *queue.Elem) int {
	for i, x := range list {
		if x == e {
			return i
		}
	}
	return -1
}

func zzCountInflight(list []*queue.Elem, q *Queue) int {
	// entries in front of the read cursor are in flight
	n := 0
	for e := q.l.Front(); e != nil && e != q.current; e = e.Next() {
		n++
	}
	return n
}

// ZZ_C10_Step: one operation from an arbitrary representable state.
func ZZ_C10_Step() {
	max := zzrt.Choice(zzrt.Param("MAX")) + 1
	n := zzrt.Choice(max + 1)
	i := zzrt.Choice(n + 1) // in-flight prefix length
	nt := &zzNotifier{}
	q := zzNewQueue(max, nt)
	q.version = packets.Version5
	q.readBytesLimit = uint32(zzrt.IntRange(1, 64))
	q.inflightExpiry = time.Duration(zzrt.Choice(2)) * time.Duration(zzrt.IntRange(1, 1<<40))
	q.inflightDrained = true
	q.closed = zzrt.ConcreteBool(zzrt.Bool())
	now := time.Now()
	ids := make([]packets.PacketID, i)
	for k := range ids {
		ids[k] = zzrt.Uint16()
		zzrt.Assume(ids[k] != 0)
		for j := 0; j < k; j++ {
			zzrt.Assume(ids[k] != ids[j])
		}
	}
	var ents []*zzEnt
	for k := 0; k < n; k++ {
		var x *zzEnt
		if k < i {
			x = zzSymElem(now, k, true, ids[k])
		} else {
			x = zzSymElem(now, k, false, 0)
		}
		ents = append(ents, x)
		le := q.l.PushBack(x.e)
		if k == i {
			q.current = le
		}
	}
	before := zzContents(q)
	op := zzrt.Choice(6)
	zzrt.Observe("op", op)
	zzrt.Observe("n", n)
	zzrt.Observe("i", i)
	zzrt.Observe("max", max)
	entOf := func(e *queue.Elem) *zzEnt {
		for _, x := range ents {
			if x.e == e {
				return x
			}
		}
		return nil
	}
	switch op {
	case 0: // Add
		nw := zzSymElem(now, 9, false, 0)
		err := q.Add(nw.e)
		zzrt.Assert(err == nil, "add-no-error")
		after := zzContents(q)
		zzrt.Assert(len(after) <= max, "length-never-exceeds-maximum")
		if n < max {
			zzrt.Assert(len(nt.dropped) == 0, "nothing-dropped-when-not-full")
			zzrt.Assert(len(after) == n+1 && after[n] == nw.e, "added-at-the-tail")
			zzrt.Assert(nt.queued == 1 && nt.inflight == 0, "counters-follow-add")
			zzrt.Cover("add-room")
			break
		}
		// full: exactly one victim, chosen by the documented priority
		zzrt.Assert(len(nt.dropped) == 1, "exactly-one-victim-when-full")
		victim := nt.dropped[0]
		verr := nt.dropErrs[0]
		var want *queue.Elem
		var wantErr error
		// 1. an expired in-flight entry
		for _, x := range ents[:i] {
			if want == nil && zzrt.ConcreteBool(zzExpired(now, x)) {
				want, wantErr = x.e, queue.ErrDropExpiredInflight
			}
		}
		// 2. an expired queued message
		if want == nil {
			for _, x := range ents[i:] {
				if want == nil && zzrt.ConcreteBool(zzExpired(now, x)) {
					want, wantErr = x.e, queue.ErrDropExpired
				}
			}
		}
		// 3. a queued QoS 0 message
		if want == nil {
			for _, x := range ents[i:] {
				if want == nil && x.e.MessageWithID.(*queue.Publish).QoS == 0 {
					want, wantErr = x.e, queue.ErrDropQueueFull
				}
			}
		}
		// 4. the newcomer when it is QoS 0 or nothing is queued, else the oldest queued
		if want == nil {
			if nw.e.MessageWithID.(*queue.Publish).QoS == 0 || i == n {
				want, wantErr = nw.e, queue.ErrDropQueueFull
			} else {
				want, wantErr = ents[i].e, queue.ErrDropQueueFull
			}
		}
		zzrt.Observe("victimtag", map[bool]int{true: 9, false: 0}[victim == nw.e]+zzIndexOf(before, victim)+1)
		if wantErr == queue.ErrDropExpiredInflight {
			// any expired in-flight entry is an acceptable victim
			vx := entOf(victim)
			zzrt.Assert(vx != nil && vx.inflight && zzrt.ConcreteBool(zzExpired(now, vx)) && verr == wantErr, "victim-expired-inflight-first")
			zzrt.Assert(nt.inflight == -1, "inflight-counter-follows-drop")
		} else {
			zzrt.Assert(victim == want && verr == wantErr, "victim-by-documented-priority")
			zzrt.Assert(nt.inflight == 0, "inflight-counter-untouched")
		}
		zzrt.Assert(nt.queued == 0, "queued-counter-net-zero-on-replace")
		// conservation: everything else is still there, in order, newcomer last unless it was the victim
		var expect []*queue.Elem
		for _, e := range before {
			if e != victim {
				expect = append(expect, e)
			}
		}
		if victim != nw.e {
			expect = append(expect, nw.e)
		}
		zzrt.Assert(len(after) == len(expect), "conservation-length")
		for k := range expect {
			zzrt.Assert(k < len(after) && after[k] == expect[k], "conservation-order")
		}
		zzrt.Cover("add-full")
	case 1: // Read
		np := zzrt.Choice(3) + 1
		pids := []packets.PacketID{101, 102, 103}[:np]
		if q.closed {
			rs, err := q.Read(pids)
			zzrt.Assert(err == queue.ErrClosed && len(rs) == 0, "read-on-closed-queue")
			zzrt.Cover("read-closed")
			break
		}
		if i == n {
			break // nothing unread: Read would block
		}
		rs, err := q.Read(pids)
		zzrt.Assert(err == nil, "read-no-error")
		zzrt.Assert(len(rs) <= np, "batch-not-larger-than-id-list")
		after := zzContents(q)
		// returned + dropped = a prefix of the unread part, each element exactly one of the two
		m := len(rs) + len(nt.dropped)
		zzrt.Assert(m <= n-i, "only-unread-elements-touched")
		ri, di, pi := 0, 0, 0
		stay := 0
		for k := 0; k < m; k++ {
			x := ents[i+k]
			pub := x.e.MessageWithID.(*queue.Publish)
			exp := zzrt.ConcreteBool(zzExpired(now, x))
			big := pub.TotalBytes(packets.Version5) > q.readBytesLimit
			if exp || zzrt.ConcreteBool(big) {
				zzrt.Assert(di < len(nt.dropped) && nt.dropped[di] == x.e, "expired-or-oversize-dropped-not-returned")
				if exp {
					zzrt.Assert(nt.dropErrs[di] == queue.ErrDropExpired, "expired-reported-as-expired")
				} else {
					zzrt.Assert(nt.dropErrs[di] == queue.ErrDropExceedsMaxPacketSize, "oversize-reported-as-oversize")
				}
				di++
				continue
			}
			zzrt.Assert(ri < len(rs) && rs[ri] == x.e, "read-in-insertion-order")
			ri++
			if pub.QoS > 0 {
				zzrt.Assert(pub.PacketID == pids[pi], "ids-assigned-in-order-to-qos-gt-0")
				pi++
				stay++
			} else {
				zzrt.Assert(pub.PacketID == 0, "qos0-gets-no-id")
			}
		}
		zzrt.Assert(ri == len(rs) && di == len(nt.dropped), "returned-and-dropped-accounted")
		// what stays: old in-flight, newly in-flight (QoS>0 read), untouched unread tail
		zzrt.Assert(len(after) == i+stay+(n-i-m), "conservation-length")
		zzrt.Assert(nt.queued == len(after)-n && nt.inflight == stay, "counters-follow-read")
		zzrt.Cover("read")
	case 2: // Remove
		id := zzrt.Uint16()
		zzrt.Assert(q.Remove(id) == nil, "remove-no-error")
		after := zzContents(q)
		hit := -1
		for k := 0; k < i; k++ {
			if zzrt.ConcreteBool(ids[k] == id) {
				hit = k
			}
		}
		if hit >= 0 {
			zzrt.Assert(len(after) == n-1 && zzIndexOf(after, ents[hit].e) < 0, "acknowledged-entry-removed")
			zzrt.Assert(nt.queued == -1 && nt.inflight == -1, "counters-follow-remove")
			zzrt.Cover("remove-hit")
		} else {
			zzrt.Assert(len(after) == n, "remove-of-unknown-id-is-noop")
			zzrt.Assert(nt.queued == 0 && nt.inflight == 0, "counters-untouched")
		}
		for k := i; k < n; k++ {
			zzrt.Assert(zzIndexOf(after, ents[k].e) >= 0, "remove-never-touches-unread")
		}
	case 3: // Replace (PUBREC received)
		id := zzrt.Uint16()
		rel := &queue.Elem{At: now, MessageWithID: &queue.Pubrel{PacketID: id}}
		replaced, err := q.Replace(rel)
		zzrt.Assert(err == nil, "replace-no-error")
		after := zzContents(q)
		hit := -1
		for k := 0; k < i; k++ {
			if zzrt.ConcreteBool(ids[k] == id) {
				hit = k
			}
		}
		zzrt.Assert(replaced == (hit >= 0), "replace-reports-hit")
		zzrt.Assert(len(after) == n, "replace-keeps-length")
		for k := 0; k < n; k++ {
			if k == hit {
				zzrt.Assert(after[k] == rel, "inflight-entry-replaced-in-place")
			} else {
				zzrt.Assert(after[k] == ents[k].e, "other-entries-untouched")
			}
		}
		zzrt.Assert(nt.queued == 0 && nt.inflight == 0, "counters-untouched")
		zzrt.Cover("replace")
	case 4: // Init (reconnect), then drain the in-flight entries
		clean := zzrt.ConcreteBool(zzrt.Bool())
		var unreadExp []time.Time
		for k := i; k < n; k++ {
			unreadExp = append(unreadExp, ents[k].e.Expiry)
		}
		zzrt.Assert(q.Init(&queue.InitOptions{CleanStart: clean, Version: packets.Version5, ReadBytesLimit: 64, Notifier: nt}) == nil, "init-ok")
		var got []*queue.Elem
		for round := 0; round < n+2; round++ {
			rs, err := q.ReadInflight(uint(zzrt.Choice(2) + 1))
			zzrt.Assert(err == nil, "read-inflight-ok")
			if len(rs) == 0 {
				break
			}
			got = append(got, rs...)
		}
		if clean {
			zzrt.Assert(len(got) == 0 && q.l.Len() == 0, "clean-start-empties")
			zzrt.Cover("init-clean")
		} else {
			zzrt.Assert(len(got) == i, "replays-exactly-the-inflight-entries")
			for k := 0; k < i && k < len(got); k++ {
				zzrt.Assert(got[k] == ents[k].e && got[k].ID() == ids[k], "inflight-replayed-in-order-with-ids")
			}
			zzrt.Assert(q.inflightDrained, "drained-after-replay")
			// the replay is about the in-flight entries only: a queued message keeps its
			// deadline (it must still expire when its lifetime is over)
			for k := i; k < n; k++ {
				zzrt.Assert(ents[k].e.Expiry.Equal(unreadExp[k-i]) && ents[k].e.Expiry.IsZero() == unreadExp[k-i].IsZero(), "replay-leaves-the-deadline-of-queued-messages-alone")
			}
			zzrt.Cover("init-resume")
		}
	case 5: // Close
		zzrt.Assert(q.Close() == nil, "close-ok")
		zzrt.Assert(q.closed && q.l.Len() == n, "close-keeps-contents")
	}
	// representation invariant re-established
	after := zzContents(q)
	zzrt.Assert(len(after) <= max, "length-never-exceeds-maximum")
	seenUnread := false
	for e := q.l.Front(); e != nil; e = e.Next() {
		if e == q.current {
			seenUnread = true
		}
		el := e.Value.(*queue.Elem)
		if seenUnread {
			zzrt.Assert(el.ID() == 0, "unread-part-has-no-ids")
		} else if op != 4 {
			zzrt.Assert(el.ID() != 0, "inflight-part-has-ids")
		}
	}
	zzrt.Cover("step-done")
}

// ZZ_C10_AddBeforeDrain: a message is delivered to the session after a reconnect
// (Init without clean start) but before the poll goroutine has drained the in-flight
// entries: Add must neither crash nor lose or exceed.
func ZZ_C10_AddBeforeDrain() {
	max := zzrt.Choice(zzrt.Param("MAX")) + 1
	n := zzrt.Choice(max + 1)
	i := zzrt.Choice(n + 1)
	nt := &zzNotifier{}
	q := zzNewQueue(max, nt)
	now := time.Now()
	var ents []*zzEnt
	for k := 0; k < n; k++ {
		var x *zzEnt
		if k < i {
			x = zzSymElem(now, k, true, packets.PacketID(k+1))
		} else {
			x = zzSymElem(now, k, false, 0)
		}
		ents = append(ents, x)
		q.l.PushBack(x.e)
	}
	zzrt.Assert(q.Init(&queue.InitOptions{CleanStart: false, Version: packets.Version5, ReadBytesLimit: 64, Notifier: nt}) == nil, "init-ok")
	before := zzContents(q)
	nw := zzSymElem(now, 9, false, 0)
	zzrt.Observe("n", n)
	zzrt.Observe("i", i)
	zzrt.Assert(q.Add(nw.e) == nil, "add-no-error")
	after := zzContents(q)
	zzrt.Assert(len(after) <= max, "length-never-exceeds-maximum")
	zzrt.Assert(len(after)+len(nt.dropped) == len(before)+1, "conservation-length")
	// an unacknowledged in-flight entry is never sacrificed while it is alive
	droppedInflight := 0
	for k, d := range nt.dropped {
		for _, x := range ents[:i] {
			if x.e == d {
				droppedInflight++
				zzrt.Assert(zzrt.ConcreteBool(zzExpired(now, x)) && nt.dropErrs[k] == queue.ErrDropExpiredInflight, "live-inflight-entry-never-dropped")
			}
		}
	}
	zzrt.Assert(nt.inflight == -droppedInflight, "inflight-counter-follows-drop")
	// the in-flight entries are then still replayed, in order
	var got []*queue.Elem
	for round := 0; round < n+2; round++ {
		rs, _ := q.ReadInflight(2)
		if len(rs) == 0 {
			break
		}
		got = append(got, rs...)
	}
	k := 0
	for _, x := range ents[:i] {
		if zzIndexOf(nt.dropped, x.e) >= 0 {
			continue
		}
		zzrt.Assert(k < len(got) && got[k] == x.e, "inflight-replayed-in-order-after-add")
		k++
	}
	zzrt.Assert(k == len(got), "only-inflight-replayed")
	zzrt.Cover("add-before-drain")
}

// ZZ_C10_History: K operations from New+Init; cumulative conservation and counters.
func ZZ_C10_History() {
	K := zzrt.Param("K")
	max := zzrt.Choice(2) + 1
	nt := &zzNotifier{}
	q, _ := New(Options{MaxQueuedMsg: max, ClientID: "c1", DefaultNotifier: nt})
	q.Init(&queue.InitOptions{CleanStart: true, Version: packets.Version5, ReadBytesLimit: 1 << 20, Notifier: nt})
	q.ReadInflight(1)
	added, returned0 := 0, 0
	nextID := packets.PacketID(1)
	for step := 0; step < K; step++ {
		switch zzrt.Choice(3) {
		case 0:
			qos := uint8(zzrt.Choice(3))
			zzrt.Assert(q.Add(&queue.Elem{At: time.Now(), MessageWithID: &queue.Publish{Message: &gmqtt.Message{Topic: "t", QoS: qos}}}) == nil, "add-ok")
			added++
		case 1:
			unread := 0
			for e := q.current; e != nil; e = e.Next() {
				unread++
			}
			if unread == 0 {
				continue
			}
			rs, err := q.Read([]packets.PacketID{nextID, nextID + 1})
			zzrt.Assert(err == nil, "read-ok")
			for _, e := range rs {
				if e.MessageWithID.(*queue.Publish).QoS == 0 {
					returned0++
				} else {
					zzrt.Assert(e.ID() == nextID, "fresh-ids-in-order")
					nextID++
				}
			}
		case 2:
			if nextID > 1 {
				id := packets.PacketID(zzrt.Choice(int(nextID)-1) + 1)
				q.Remove(id)
			}
		}
		n := q.l.Len()
		inflight := 0
		for e := q.l.Front(); e != nil && e != q.current; e = e.Next() {
			inflight++
		}
		zzrt.Assert(n <= max, "length-never-exceeds-maximum")
		zzrt.Assert(nt.queued == n, "queued-counter-equals-contents")
		zzrt.Assert(nt.inflight == inflight, "inflight-counter-equals-contents")
	}
	zzrt.Cover("history-done")
	_ = list.New
}
