package mem

// C02 — the subscription index answers like MQTT 4.7 after any history
// (pool-symbolic filters/topics, fully symbolic subscription options).

import (
	gmqtt "github.com/DrmagicE/gmqtt"
	"github.com/DrmagicE/gmqtt/persistence/subscription"
	"github.com/DrmagicE/gmqtt/zzref"
	"github.com/DrmagicE/gmqtt/zzrt"
)

var zzFilterPools = [][]string{
	{"a", "a/b", "a/#", "+", "#", "a/+"},
	{"/", "/a", "a/", "a//b", "+/+", "/#", "+/#"},
	{"$s", "$s/a", "$s/#", "$s/+", "a/b/c", "a/b/#", "+/b", "a/+/c"},
	{"a", "b", "a/b", "a/c", "+/b", "a/+", "$s/a", "#"},
}

var zzTopicPool = []string{"a", "b", "a/b", "a/c", "a/b/c", "/", "/a", "a/", "a//b", "$s", "$s/a", "$s/b/c"}

var zzClients = []string{"c1", "c2"}

type zzKey struct{ client, filter string }

func zzSubEq(x, y *gmqtt.Subscription) bool {
	r := zzrt.And(x.QoS == y.QoS, x.ID == y.ID)
	r = zzrt.And(r, zzrt.And(x.NoLocal == y.NoLocal, x.RetainAsPublished == y.RetainAsPublished))
	r = zzrt.And(r, x.RetainHandling == y.RetainHandling)
	return zzrt.And(r, x.TopicFilter == y.TopicFilter && x.ShareName == y.ShareName)
}

func zzSymSub(filter string) *gmqtt.Subscription {
	q := zzrt.Byte()
	zzrt.Assume(q <= 2)
	return &gmqtt.Subscription{TopicFilter: filter, QoS: q, NoLocal: zzrt.Bool(), RetainAsPublished: zzrt.Bool(), RetainHandling: zzrt.Byte(), ID: zzrt.Uint32()}
}

// zzCheckAgainst compares every query the store offers with the reference table.
func zzCheckAgainst(db *TrieDB, ref map[zzKey]*gmqtt.Subscription, order []zzKey, filters []string, totalNew int) {
	// lookup by topic name
	for _, topic := range zzTopicPool {
		got := subscription.GetTopicMatched(db, topic, subscription.TypeSYS|subscription.TypeNonShared)
		n := 0
		for _, k := range order {
			s := ref[k]
			if s == nil {
				continue
			}
			if zzref.MatchLevels(topic, k.filter) {
				n++
				found := false
				for _, g := range got[k.client] {
					if g.TopicFilter == k.filter {
						zzrt.Assert(!found, "match-lookup-no-duplicate")
						found = true
						zzrt.Assert(zzSubEq(g, s), "match-lookup-latest-options")
					}
				}
				zzrt.Assert(found, "match-lookup-complete")
			}
		}
		gn := 0
		for _, l := range got {
			gn += len(l)
		}
		zzrt.Assert(gn == n, "match-lookup-exact")
	}
	// lookup by topic name restricted to one client
	var clients []string
	for _, k := range order {
		seen := false
		for _, c := range clients {
			if c == k.client {
				seen = true
			}
		}
		if !seen {
			clients = append(clients, k.client)
		}
	}
	for _, topic := range zzTopicPool {
		for _, c := range clients {
			var got []*gmqtt.Subscription
			db.Iterate(func(id string, sub *gmqtt.Subscription) bool {
				zzrt.Assert(id == c, "client-restricted-lookup-stays-with-the-client")
				got = append(got, sub)
				return true
			}, subscription.IterationOptions{Type: subscription.TypeSYS | subscription.TypeNonShared, ClientID: c, TopicName: topic, MatchType: subscription.MatchFilter})
			n := 0
			for _, k := range order {
				if k.client != c || ref[k] == nil || !zzref.MatchLevels(topic, k.filter) {
					continue
				}
				n++
				found := false
				for _, g := range got {
					if g.TopicFilter == k.filter {
						found = true
					}
				}
				zzrt.Assert(found, "client-restricted-match-lookup-complete")
			}
			zzrt.Assert(len(got) == n, "client-restricted-match-lookup-exact")
		}
	}
	// lookup by exact filter
	for _, f := range filters {
		got := subscription.Get(db, f, subscription.TypeSYS|subscription.TypeNonShared)
		n := 0
		for _, k := range order {
			if s := ref[k]; s != nil && k.filter == f {
				n++
				zzrt.Assert(len(got[k.client]) == 1 && zzSubEq(got[k.client][0], s), "name-lookup-latest-options")
			}
		}
		gn := 0
		for _, l := range got {
			gn += len(l)
		}
		zzrt.Assert(gn == n, "name-lookup-exact")
	}
	// lookup by client, and counters
	live := 0
	for _, c := range zzClients {
		got := subscription.GetClientSubscriptions(db, c, subscription.TypeSYS|subscription.TypeNonShared)
		n := 0
		for _, k := range order {
			if s := ref[k]; s != nil && k.client == c {
				n++
				found := false
				for _, g := range got {
					if g.TopicFilter == k.filter {
						found = true
						zzrt.Assert(zzSubEq(g, s), "client-lookup-latest-options")
					}
				}
				zzrt.Assert(found, "client-lookup-complete")
			}
		}
		zzrt.Assert(len(got) == n, "client-lookup-exact")
		live += n
		st, err := db.GetClientStats(c)
		if err == nil {
			zzrt.Assert(st.SubscriptionsCurrent == uint64(n), "client-count-equals-live")
		} else {
			zzrt.Assert(n == 0, "client-stats-missing-only-when-empty")
		}
	}
	st := db.GetStats()
	zzrt.Assert(st.SubscriptionsCurrent == uint64(live), "count-equals-live")
	zzrt.Assert(st.SubscriptionsTotal == uint64(totalNew), "total-counts-new-insertions")
}

// ZZ_C02_TrieHistory: K operations from an empty store, reference table alongside.
func ZZ_C02_TrieHistory() {
	K := zzrt.Param("K")
	filters := zzFilterPools[zzrt.Param("POOL")]
	db := NewStore()
	ref := map[zzKey]*gmqtt.Subscription{}
	var order []zzKey
	totalNew := 0
	for step := 0; step < K; step++ {
		c := zzClients[zzrt.Choice(len(zzClients))]
		switch zzrt.Choice(3) {
		case 0:
			f := filters[zzrt.Choice(len(filters))]
			s := zzSymSub(f)
			rs, err := db.Subscribe(c, s)
			k := zzKey{c, f}
			zzrt.Assert(err == nil && len(rs) == 1, "subscribe-ok")
			zzrt.Assert(rs[0].AlreadyExisted == (ref[k] != nil), "already-existed-flag")
			if ref[k] == nil {
				totalNew++
				seen := false
				for _, o := range order {
					if o == k {
						seen = true
					}
				}
				if !seen {
					order = append(order, k)
				}
			}
			ref[k] = s
		case 1:
			f := filters[zzrt.Choice(len(filters))]
			zzrt.Assert(db.Unsubscribe(c, f) == nil, "unsubscribe-ok")
			delete(ref, zzKey{c, f})
		case 2:
			zzrt.Assert(db.UnsubscribeAll(c) == nil, "unsubscribe-all-ok")
			for _, k := range order {
				if k.client == c {
					delete(ref, k)
				}
			}
		}
		if step == K-1 || zzrt.Param("EVERY") == 1 {
			zzCheckAgainst(db, ref, order, filters, totalNew)
		}
	}
	zzrt.Cover("history-done")
}
