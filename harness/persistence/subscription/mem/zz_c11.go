package mem

// C11 — shared subscription membership: a member leaving (UNSUBSCRIBE, or
// unsubscribe-all = session end / clean take-over / expiry) affects neither the other
// members nor other groups nor non-shared subscriptions, and is no longer selectable.

import (
	gmqtt "github.com/DrmagicE/gmqtt"
	"github.com/DrmagicE/gmqtt/persistence/subscription"
	"github.com/DrmagicE/gmqtt/zzref"
	"github.com/DrmagicE/gmqtt/zzrt"
)

type zzMember struct{ client, group, filter string } // group "" = non-shared

var zzC11Clients = []string{"c1", "c2", "c3"}
var zzC11Groups = []string{"", "g1", "g2"}
var zzC11Filters = []string{"a", "a/+", "#", "$s/a"}
var zzC11Topics = []string{"a", "a/b", "b", "$s/a"}

func zzFull(m zzMember) string {
	if m.group == "" {
		return m.filter
	}
	return "$share/" + m.group + "/" + m.filter
}

// ZZ_C11_Membership: K subscribe / unsubscribe / unsubscribe-all operations mixing
// shared and non-shared subscriptions; after every step the store's view of every
// group is compared with a reference set.
func ZZ_C11_Membership() {
	K := zzrt.Param("K")
	db := NewStore()
	ref := map[zzMember]*gmqtt.Subscription{}
	var order []zzMember
	for step := 0; step < K; step++ {
		c := zzC11Clients[zzrt.Choice(len(zzC11Clients))]
		op := zzrt.Choice(3)
		if op == 2 {
			zzrt.Assert(db.UnsubscribeAll(c) == nil, "unsubscribe-all-ok")
			for _, m := range order {
				if m.client == c {
					delete(ref, m)
				}
			}
		} else {
			m := zzMember{c, zzC11Groups[zzrt.Choice(len(zzC11Groups))], zzC11Filters[zzrt.Choice(len(zzC11Filters))]}
			if op == 0 {
				q := zzrt.Byte()
				zzrt.Assume(q <= 2)
				s := &gmqtt.Subscription{ShareName: m.group, TopicFilter: m.filter, QoS: q, ID: zzrt.Uint32()}
				_, err := db.Subscribe(c, s)
				zzrt.Assert(err == nil, "subscribe-ok")
				if ref[m] == nil {
					seen := false
					for _, o := range order {
						if o == m {
							seen = true
						}
					}
					if !seen {
						order = append(order, m)
					}
				}
				ref[m] = s
			} else {
				zzrt.Assert(db.Unsubscribe(c, zzFull(m)) == nil, "unsubscribe-ok")
				delete(ref, m)
			}
		}
		// compare: for every topic, the set of (client, group, filter) the store would
		// select from equals the reference members whose filter matches
		for _, topic := range zzC11Topics {
			type hit struct {
				client string
				sub    *gmqtt.Subscription
			}
			var got []hit
			db.Iterate(func(clientID string, sub *gmqtt.Subscription) bool {
				got = append(got, hit{clientID, sub})
				return true
			}, subscription.IterationOptions{Type: subscription.TypeAll, TopicName: topic, MatchType: subscription.MatchFilter})
			n := 0
			for _, m := range order {
				s := ref[m]
				if s == nil || !zzref.MatchLevels(topic, m.filter) {
					continue
				}
				n++
				found := 0
				for _, g := range got {
					if g.client == m.client && g.sub.ShareName == m.group && g.sub.TopicFilter == m.filter {
						found++
						zzrt.Assert(zzrt.And(g.sub.QoS == s.QoS, g.sub.ID == s.ID), "member-has-latest-options")
					}
				}
				zzrt.Assert(found >= 1, "remaining-member-still-selectable")
				zzrt.Assert(found <= 1, "member-listed-once")
			}
			zzrt.Assert(len(got) <= n, "leaver-no-longer-selectable")
			zzrt.Assert(len(got) == n, "membership-exact")
		}
		// counters count shared subscriptions too
		zzrt.Assert(db.GetStats().SubscriptionsCurrent == uint64(len(ref)), "count-equals-live-incl-shared")
	}
	zzrt.Cover("membership-done")
}
