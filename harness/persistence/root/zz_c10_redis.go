package persistence

// C10 for the redis backend: the redis queue must be observationally equal to the
// memory queue (whose contract the C10 step / history harnesses establish) through the
// public queue.Store API and a recording notifier, for every history within the bounds.

import (
	"time"

	gmqtt "github.com/DrmagicE/gmqtt"
	"github.com/DrmagicE/gmqtt/persistence/queue"
	mem_queue "github.com/DrmagicE/gmqtt/persistence/queue/mem"
	redis_queue "github.com/DrmagicE/gmqtt/persistence/queue/redis"
	"github.com/DrmagicE/gmqtt/pkg/packets"
	"github.com/DrmagicE/gmqtt/zzredis"
	"github.com/DrmagicE/gmqtt/zzrt"
)

type zzDrop struct {
	tag byte
	err error
}

type zzRecNotifier struct {
	drops    []zzDrop
	inflight int
	queued   int
}

func zzTagOf(e *queue.Elem) byte {
	if p, ok := e.MessageWithID.(*queue.Publish); ok && len(p.Payload) > 0 {
		return p.Payload[0]
	}
	return 0xFF // a PUBREL
}

func (n *zzRecNotifier) NotifyDropped(e *queue.Elem, err error) {
	n.drops = append(n.drops, zzDrop{zzTagOf(e), err})
}
func (n *zzRecNotifier) NotifyInflightAdded(d int) { n.inflight += d }
func (n *zzRecNotifier) NotifyMsgQueueAdded(d int) { n.queued += d }

func zzDiffElems(a, b []*queue.Elem, what string) {
	zzrt.Assert(len(a) == len(b), what+"-same-number-of-elements")
	for i := range a {
		if i >= len(b) {
			break
		}
		_, ra := a[i].MessageWithID.(*queue.Pubrel)
		_, rb := b[i].MessageWithID.(*queue.Pubrel)
		zzrt.Assert(ra == rb, what+"-same-kind")
		zzrt.Assert(a[i].ID() == b[i].ID(), what+"-same-identifier")
		if !ra && !rb {
			zzrt.Assert(zzTagOf(a[i]) == zzTagOf(b[i]), what+"-same-message-in-the-same-order")
			zzrt.Assert(a[i].MessageWithID.(*queue.Publish).QoS == b[i].MessageWithID.(*queue.Publish).QoS, what+"-same-qos")
		}
	}
}

// ZZ_C10_RedisDiff: K operations on a memory queue and a redis queue side by side.
func ZZ_C10_RedisDiff() {
	K := zzrt.Param("K")
	max := 1 + zzrt.Choice(zzrt.Param("MAX"))
	infl := time.Duration(zzrt.Choice(2)) * 30 * time.Second
	limit := uint32(40)
	ntM, ntR := &zzRecNotifier{}, &zzRecNotifier{}
	qm, _ := mem_queue.New(mem_queue.Options{MaxQueuedMsg: max, InflightExpiry: infl, ClientID: "c1", DefaultNotifier: ntM})
	st := zzredis.NewStore()
	qr, _ := redis_queue.New(redis_queue.Options{MaxQueuedMsg: max, InflightExpiry: infl, ClientID: "c1", Pool: zzredis.NewPool(st), DefaultNotifier: ntR})
	init := func(clean bool) {
		em := qm.Init(&queue.InitOptions{CleanStart: clean, Version: packets.Version5, ReadBytesLimit: limit, Notifier: ntM})
		er := qr.Init(&queue.InitOptions{CleanStart: clean, Version: packets.Version5, ReadBytesLimit: limit, Notifier: ntR})
		zzrt.Assert(em == nil && er == nil, "init-succeeds")
	}
	drain := func() {
		for round := 0; round < 6; round++ {
			am, em := qm.ReadInflight(2)
			ar, er := qr.ReadInflight(2)
			zzrt.Assert((em == nil) == (er == nil), "read-inflight-same-error")
			zzDiffElems(am, ar, "read-inflight")
			if len(am) == 0 && len(ar) == 0 {
				break
			}
		}
	}
	init(true)
	drain()
	now := time.Now()
	nextTag := byte(1)
	nextID := packets.PacketID(1)
	mk := func(qos byte, exp int, big bool, tag byte) *queue.Elem {
		payload := []byte{tag}
		if big {
			payload = append(payload, make([]byte, 60)...)
		}
		e := &queue.Elem{At: now, MessageWithID: &queue.Publish{Message: &gmqtt.Message{Topic: "t", QoS: qos, Payload: payload}}}
		if exp != 0 {
			e.Expiry = now.Add(time.Duration(exp) * time.Second)
		}
		return e
	}
	add := func() {
		// symbolic QoS and expiry offset (whole seconds, 0 = never expires): the solver
		// decides which rung of the drop ladder each history takes
		qos := zzrt.Byte()
		zzrt.Assume(qos <= 2)
		exp := zzrt.IntRange(-10, 10)
		big := zzrt.Choice(zzrt.Param("BIG")) == 1
		tag := nextTag
		nextTag++
		em := qm.Add(mk(qos, exp, big, tag))
		er := qr.Add(mk(qos, exp, big, tag))
		zzrt.Assert((em == nil) == (er == nil), "add-same-error")
	}
	check := func() {
		zzrt.Assert(len(ntM.drops) == len(ntR.drops), "same-number-of-drops")
		for i := range ntM.drops {
			if i >= len(ntR.drops) {
				break
			}
			zzrt.Assert(ntM.drops[i].tag == ntR.drops[i].tag, "same-message-dropped")
			zzrt.Assert(ntM.drops[i].err == ntR.drops[i].err, "same-drop-reason")
		}
		zzrt.Assert(ntM.queued == ntR.queued, "same-queued-counter")
		zzrt.Assert(ntM.inflight == ntR.inflight, "same-inflight-counter")
		zzrt.Assert(st.ListLen("queue:c1") <= max, "redis-list-never-longer-than-the-maximum")
		zzrt.Assert(st.ListLen("queue:c1") == ntR.queued, "redis-queued-counter-equals-list-length")
	}
	drained := true
	for step := 0; step < K; step++ {
		op := zzrt.Choice(6)
		if op == 5 {
			// time passes (whole seconds: the redis queue stores seconds); with an in-flight
			// expiry every later hand-out / replay rewrites the entries with a new deadline
			zzrt.ClockAdvance(time.Duration(1+zzrt.Choice(2)) * time.Second)
			now = time.Now()
			continue
		}
		if !drained && op != 0 {
			// after a resume the only thing that can precede the drain is a delivery (Add)
			drain()
			drained = true
			check()
		}
		switch op {
		case 0:
			add()
		case 1:
			if ntM.queued-ntM.inflight <= 0 {
				zzrt.Assume(false) // Read would block
			}
			n := 1 + zzrt.Choice(2)
			var ids []packets.PacketID
			for i := 0; i < n; i++ {
				ids = append(ids, nextID+packets.PacketID(i))
			}
			am, em := qm.Read(ids)
			ar, er := qr.Read(append([]packets.PacketID{}, ids...))
			zzrt.Assert((em == nil) == (er == nil), "read-same-error")
			zzDiffElems(am, ar, "read")
			nextID += packets.PacketID(n)
		case 2:
			if nextID == 1 {
				zzrt.Assume(false)
			}
			id := packets.PacketID(1 + zzrt.Choice(int(nextID)-1))
			em, er := qm.Remove(id), qr.Remove(id)
			zzrt.Assert((em == nil) == (er == nil), "remove-same-error")
		case 3:
			if nextID == 1 {
				zzrt.Assume(false)
			}
			id := packets.PacketID(1 + zzrt.Choice(int(nextID)-1))
			rm, em := qm.Replace(&queue.Elem{At: now, MessageWithID: &queue.Pubrel{PacketID: id}})
			rr, er := qr.Replace(&queue.Elem{At: now, MessageWithID: &queue.Pubrel{PacketID: id}})
			zzrt.Assert((em == nil) == (er == nil) && rm == rr, "replace-same-result")
		case 4: // the connection ends and the session is resumed
			qm.Close()
			qr.Close()
			init(false)
			drained = false
		}
		check()
	}
	if !drained {
		drain()
		check()
	}
	zzrt.Cover("diff-done")
}

// ZZ_C10_RedisAddBeforeDrain: the queue is filled, part of it handed out (some QoS 2
// entries already replaced by their PUBREL), the connection ends, the session is resumed
// and a message is delivered BEFORE the in-flight entries have been replayed, with the
// queue full: both backends must behave identically (no crash, same drop, same replay).
func ZZ_C10_RedisAddBeforeDrain() {
	max := 1 + zzrt.Choice(zzrt.Param("MAX"))
	infl := time.Duration(zzrt.Choice(2)) * 30 * time.Second
	ntM, ntR := &zzRecNotifier{}, &zzRecNotifier{}
	qm, _ := mem_queue.New(mem_queue.Options{MaxQueuedMsg: max, InflightExpiry: infl, ClientID: "c1", DefaultNotifier: ntM})
	st := zzredis.NewStore()
	qr, _ := redis_queue.New(redis_queue.Options{MaxQueuedMsg: max, InflightExpiry: infl, ClientID: "c1", Pool: zzredis.NewPool(st), DefaultNotifier: ntR})
	opts := func(clean bool, n queue.Notifier) *queue.InitOptions {
		return &queue.InitOptions{CleanStart: clean, Version: packets.Version5, ReadBytesLimit: 1 << 20, Notifier: n}
	}
	zzrt.Assert(qm.Init(opts(true, ntM)) == nil && qr.Init(opts(true, ntR)) == nil, "init-succeeds")
	qm.ReadInflight(1)
	qr.ReadInflight(1)
	now := time.Now()
	mk := func(qos byte, expSec int, tag byte) *queue.Elem {
		e := &queue.Elem{At: now, MessageWithID: &queue.Publish{Message: &gmqtt.Message{Topic: "t", QoS: qos, Payload: []byte{tag}}}}
		if expSec != 0 {
			e.Expiry = now.Add(time.Duration(expSec) * time.Second)
		}
		return e
	}
	qoss := make([]byte, max)
	for i := 0; i < max; i++ {
		qoss[i] = byte(1 + zzrt.Choice(2))
		zzrt.Assert(qm.Add(mk(qoss[i], 0, byte(i+1))) == nil && qr.Add(mk(qoss[i], 0, byte(i+1))) == nil, "fill-succeeds")
	}
	h := zzrt.Choice(max + 1) // handed out
	if h > 0 {
		var ids []packets.PacketID
		for i := 0; i < h; i++ {
			ids = append(ids, packets.PacketID(i+1))
		}
		am, em := qm.Read(ids)
		ar, er := qr.Read(append([]packets.PacketID{}, ids...))
		zzrt.Assert(em == nil && er == nil, "read-succeeds")
		zzDiffElems(am, ar, "read")
		for i := 0; i < h; i++ {
			if qoss[i] == 2 && zzrt.Choice(2) == 1 {
				rm, _ := qm.Replace(&queue.Elem{At: now, MessageWithID: &queue.Pubrel{PacketID: packets.PacketID(i + 1)}})
				rr, _ := qr.Replace(&queue.Elem{At: now, MessageWithID: &queue.Pubrel{PacketID: packets.PacketID(i + 1)}})
				zzrt.Assert(rm && rr, "replace-succeeds")
			}
		}
	}
	qm.Close()
	qr.Close()
	// the client is away for 0..2 s (with an in-flight expiry the replay then rewrites the
	// entries with a new deadline)
	zzrt.ClockAdvance(time.Duration(zzrt.Choice(3)) * time.Second)
	zzrt.Assert(qm.Init(opts(false, ntM)) == nil && qr.Init(opts(false, ntR)) == nil, "resume-succeeds")
	// the delivery that races with the replay
	nq := zzrt.Byte()
	zzrt.Assume(nq <= 2)
	ne := zzrt.IntRange(-10, 10)
	zzrt.Observe("newqos", nq)
	zzrt.Observe("handedout", h)
	em := qm.Add(mk(nq, ne, 99))
	er := qr.Add(mk(nq, ne, 99))
	zzrt.Assert((em == nil) == (er == nil), "add-same-error")
	zzrt.Assert(len(ntM.drops) == len(ntR.drops), "same-number-of-drops")
	for i := range ntM.drops {
		if i < len(ntR.drops) {
			zzrt.Assert(ntM.drops[i].tag == ntR.drops[i].tag, "same-message-dropped")
			zzrt.Assert(ntM.drops[i].err == ntR.drops[i].err, "same-drop-reason")
		}
	}
	for round := 0; round < 6; round++ {
		am, e1 := qm.ReadInflight(2)
		ar, e2 := qr.ReadInflight(2)
		zzrt.Assert((e1 == nil) == (e2 == nil), "read-inflight-same-error")
		zzDiffElems(am, ar, "read-inflight")
		if len(am) == 0 && len(ar) == 0 {
			break
		}
	}
	zzrt.Assert(ntM.queued == ntR.queued && ntM.inflight == ntR.inflight, "same-counters")
	zzrt.Assert(st.ListLen("queue:c1") <= max && st.ListLen("queue:c1") == ntR.queued, "redis-list-matches-counter-and-bound")
	// the client acknowledges what was replayed (some of it)
	for i := 0; i < h; i++ {
		if zzrt.Choice(2) == 1 {
			em, er := qm.Remove(packets.PacketID(i+1)), qr.Remove(packets.PacketID(i+1))
			zzrt.Assert((em == nil) == (er == nil), "remove-same-error")
		}
	}
	zzrt.Assert(ntM.queued == ntR.queued && ntM.inflight == ntR.inflight, "same-counters-after-acknowledgements")
	zzrt.Assert(st.ListLen("queue:c1") == ntR.queued, "redis-list-matches-counter-after-acknowledgements")
	// what is handed out next is the same
	if ntM.queued-ntM.inflight > 0 {
		am, e1 := qm.Read([]packets.PacketID{200, 201, 202})
		ar, e2 := qr.Read([]packets.PacketID{200, 201, 202})
		zzrt.Assert((e1 == nil) == (e2 == nil), "read-after-resume-same-error")
		zzDiffElems(am, ar, "read-after-resume")
	}
	zzrt.Cover("add-before-drain")
}
