package persistence

// C09 — durable (redis) sessions survive a broker crash at any point.
// Store-level harness: a history of real store calls against the zzredis stand-in, a
// crash after an arbitrary number of storage commands, then the recovery sequence of
// server.init on fresh store objects over the surviving data.

import (
	"time"

	gmqtt "github.com/DrmagicE/gmqtt"
	"github.com/DrmagicE/gmqtt/config"
	"github.com/DrmagicE/gmqtt/persistence/queue"
	"github.com/DrmagicE/gmqtt/persistence/session"
	"github.com/DrmagicE/gmqtt/persistence/subscription"
	"github.com/DrmagicE/gmqtt/persistence/unack"
	"github.com/DrmagicE/gmqtt/pkg/packets"
	"github.com/DrmagicE/gmqtt/zzredis"
	"github.com/DrmagicE/gmqtt/zzrt"
)

type zzNotifier struct{ dropped int }

func (n *zzNotifier) NotifyDropped(elem *queue.Elem, err error) { n.dropped++ }
func (n *zzNotifier) NotifyInflightAdded(delta int)             {}
func (n *zzNotifier) NotifyMsgQueueAdded(delta int)             {}

// zzBroker: the persistence objects of one broker process.
type zzBroker struct {
	pe    *redis
	cfg   config.Config
	sess  session.Store
	subs  subscription.Store
	queue map[string]queue.Store
	unack map[string]unack.Store
	noti  *zzNotifier
}

func zzStart(st *zzredis.Store, maxQueue int) *zzBroker {
	cfg := config.DefaultConfig()
	cfg.MQTT.MaxQueuedMsg = maxQueue
	cfg.MQTT.InflightExpiry = 0
	b := &zzBroker{pe: &redis{pool: zzredis.NewPool(st), config: cfg}, cfg: cfg,
		queue: map[string]queue.Store{}, unack: map[string]unack.Store{}, noti: &zzNotifier{}}
	b.sess, _ = b.pe.NewSessionStore(cfg)
	b.subs, _ = b.pe.NewSubscriptionStore(cfg)
	return b
}

// zzStep runs one broker action; it reports false when the server died during it.
func zzStep(st *zzredis.Store, f func()) (completed bool) {
	defer func() {
		if r := recover(); r != nil {
			if _, isCrash := r.(zzredis.Crash); isCrash || st.Crashed {
				completed = false
				return
			}
			panic(r)
		}
	}()
	f()
	return !st.Crashed
}

// ZZ_C09_Session: a session written by Set is listed by Iterate of a restarted broker
// under the same client id with the same fields, for every client id / field value.
func ZZ_C09_Session() {
	st := zzredis.NewStore()
	b := zzStart(st, 10)
	n := zzrt.Param("IDLEN")
	id := zzrt.String(zzrt.Choice(n + 1))
	s := &gmqtt.Session{ClientID: id, WillDelayInterval: zzrt.Uint32(), ExpiryInterval: zzrt.Uint32(), ConnectedAt: time.Unix(int64(zzrt.Uint32()), 0)}
	if zzrt.ConcreteBool(zzrt.Bool()) {
		s.Will = &gmqtt.Message{Topic: zzrt.String(1), Payload: zzrt.Bytes(1), QoS: zzrt.Byte(), Retained: zzrt.Bool()}
	}
	err := b.sess.Set(s)
	zzrt.Assert(err == nil, "session-set-succeeds")
	// the session is written again on every later CONNECT that resumes it (new connect
	// time, possibly new will / intervals) and its expiry on DISCONNECT; the server may
	// die before any command of those writes
	st.Lazy = true
	s2 := &gmqtt.Session{ClientID: id, WillDelayInterval: zzrt.Uint32(), ExpiryInterval: zzrt.Uint32(), ConnectedAt: time.Unix(int64(zzrt.Uint32()), 0), Will: s.Will}
	rewrote := false
	switch zzrt.Choice(3) {
	case 1:
		rewrote = zzStep(st, func() { err = b.sess.Set(s2) })
		zzrt.Assert(err == nil, "session-rewrite-succeeds")
	case 2:
		s2 = &gmqtt.Session{ClientID: id, WillDelayInterval: s.WillDelayInterval, ExpiryInterval: s2.ExpiryInterval, ConnectedAt: s.ConnectedAt, Will: s.Will}
		rewrote = zzStep(st, func() { err = b.sess.SetSessionExpiry(id, s2.ExpiryInterval) })
		zzrt.Assert(err == nil, "session-expiry-update-succeeds")
	}
	cut := st.Crashed
	// other keys and another session in the same store (a page of SCAN may hold no
	// session key at all)
	st.Lazy, st.Crashed, st.CrashAt = false, false, -1
	b0 := zzStart(st, 10)
	b0.subs.Subscribe("other", &gmqtt.Subscription{TopicFilter: "x", QoS: 1})
	zzrt.Assert(b0.sess.Set(&gmqtt.Session{ClientID: "other!", ExpiryInterval: 7, ConnectedAt: time.Unix(5, 0)}) == nil, "second-session-set")
	st2 := st.Survivor()
	st2.ScanPage = zzrt.Choice(3)
	b2 := zzStart(st2, 10)
	var got []*gmqtt.Session
	err = b2.sess.Iterate(func(x *gmqtt.Session) bool { got = append(got, x); return true })
	zzrt.Assert(err == nil, "restart-iterate-succeeds")
	zzrt.Assert(len(got) == 2, "acknowledged-session-listed-after-restart")
	g := got[0]
	if g.ClientID == "other!" && len(got) == 2 {
		g = got[1]
	}
	zzrt.Assert(g.ClientID == id, "session-restored-under-the-same-client-id")
	same := func(w *gmqtt.Session) bool {
		return zzrt.ConcreteBool(g.ExpiryInterval == w.ExpiryInterval && g.WillDelayInterval == w.WillDelayInterval && g.ConnectedAt.Unix() == w.ConnectedAt.Unix())
	}
	if rewrote {
		zzrt.Assert(same(s2), "session-fields-restored")
	} else if cut {
		zzrt.Assert(same(s) || same(s2), "session-fields-restored")
	} else {
		zzrt.Assert(same(s), "session-fields-restored")
	}
	zzrt.Assert((g.Will == nil) == (s.Will == nil), "session-will-presence-restored")
	if s.Will != nil && g.Will != nil {
		zzrt.Assert(g.Will.Topic == s.Will.Topic && zzrt.BytesEq(g.Will.Payload, s.Will.Payload) && g.Will.QoS == s.Will.QoS && g.Will.Retained == s.Will.Retained, "session-will-restored")
	}
	zzrt.Observe("expiry", g.ExpiryInterval)
	zzrt.Observe("delay", g.WillDelayInterval)
	zzrt.Observe("id", g.ClientID)
	zzrt.Cover("session-restored")
	_ = packets.Qos1
}
