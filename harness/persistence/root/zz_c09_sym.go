//go:build zzsym

package persistence

// Model hooks (symbolic mode only): the redigo pool, Scan and Int are replaced by the
// zzredis model; natively the real redigo runs against the same Store over RESP.

import (
	redigo "github.com/gomodule/redigo/redis"

	"github.com/DrmagicE/gmqtt/zzredis"
)

func ZZM_poolGet(p *redigo.Pool) redigo.Conn { return zzredis.Get(p) }
func ZZM_poolClose(p *redigo.Pool) error     { return zzredis.ClosePool(p) }
func ZZM_redisScan(src []interface{}, dest ...interface{}) ([]interface{}, error) {
	return zzredis.Scan(src, dest...)
}
func ZZM_redisInt(reply interface{}, err error) (int, error) { return zzredis.IntReply(reply, err) }
