package persistence

import (
	"time"

	gmqtt "github.com/DrmagicE/gmqtt"
	"github.com/DrmagicE/gmqtt/persistence/queue"
	"github.com/DrmagicE/gmqtt/pkg/packets"
	"github.com/DrmagicE/gmqtt/zzredis"
	"github.com/DrmagicE/gmqtt/zzrt"
)

// zzQRec: what the model knows about one queued message.
type zzQRec struct {
	msg  *gmqtt.Message   // as handed to Add (PacketID 0)
	id   packets.PacketID // identifier given by an acknowledged Read (0: not in flight)
	rel  bool             // replaced by a PUBREL (acknowledged Replace)
	gone bool             // acknowledged Remove / QoS0 handed out by an acknowledged Read
	// effects of the call the crash cut: either state is acceptable
	maybeID   packets.PacketID // Read cut: may already carry this identifier
	maybeRel  bool             // Replace cut
	maybeGone bool             // Remove / Add / QoS0-Read cut
}

func zzSameMsgBody(a, b *gmqtt.Message) bool {
	return zzrt.ConcreteBool(a.QoS == b.QoS && a.Retained == b.Retained && a.Topic == b.Topic && zzrt.BytesEq(a.Payload, b.Payload) &&
		a.MessageExpiry == b.MessageExpiry && a.ContentType == b.ContentType && a.ResponseTopic == b.ResponseTopic &&
		zzrt.BytesEq(a.CorrelationData, b.CorrelationData) && a.PayloadFormat == b.PayloadFormat)
}

func zzQInit(q queue.Store, clean bool, n queue.Notifier) error {
	return q.Init(&queue.InitOptions{CleanStart: clean, Version: packets.Version5, ReadBytesLimit: 1 << 20, Notifier: n})
}

// ZZ_C09_Queue: K Add / Read / Remove / Replace calls on the real redis queue of one
// session, the server dying before any command (also between the commands of one
// pipeline), then a fresh queue object with Init(CleanStart=false): every QoS>0 message
// whose Add completed and whose Remove did not is handed out again — the ones that were
// in flight first, with their identifiers (a PUBREL where the PUBREC had been recorded),
// then the others in their original order — and nothing else is.
func ZZ_C09_Queue() {
	K := zzrt.Param("K")
	st := zzredis.NewStore()
	b := zzStart(st, zzrt.Param("MAXQ"))
	// in-flight expiry off / on (30 s, the default): with it Read and ReadInflight rewrite
	// every element they hand out (no virtual time passes, so nothing expires)
	infl := time.Duration(zzrt.Choice(zzrt.Param("INFL"))) * 30 * time.Second
	b.cfg.MQTT.InflightExpiry = infl
	q, _ := b.pe.NewQueueStore(b.cfg, b.noti, "c1")
	zzrt.Assert(zzQInit(q, true, b.noti) == nil, "queue-init")
	fl, err := q.ReadInflight(10)
	zzrt.Assert(err == nil && len(fl) == 0, "fresh-queue-has-no-inflight")
	st.Lazy = true
	var recs []*zzQRec
	nextID := packets.PacketID(1)
	pending := func() []*zzQRec { // not yet handed out, in order
		var out []*zzQRec
		for _, r := range recs {
			if !r.gone && r.id == 0 {
				out = append(out, r)
			}
		}
		return out
	}
	inflight := func() []*zzQRec {
		var out []*zzQRec
		for _, r := range recs {
			if !r.gone && r.id != 0 {
				out = append(out, r)
			}
		}
		return out
	}
	for step := 0; step < K && !st.Crashed; step++ {
		switch zzrt.Choice(4) {
		case 0: // Add
			m := &gmqtt.Message{Topic: "t", Payload: zzrt.Bytes(1), QoS: byte(zzrt.Choice(zzrt.Param("NQOS"))) + 1 - byte(zzrt.Param("QOS0")), Retained: zzrt.Bool()}
			if zzrt.ConcreteBool(zzrt.Bool()) {
				m.MessageExpiry = zzrt.Uint32()
				m.CorrelationData = zzrt.Bytes(1)
				m.ResponseTopic = "r"
			}
			r := &zzQRec{msg: m}
			e := &queue.Elem{At: time.Now(), MessageWithID: &queue.Publish{Message: m.Copy()}}
			var err error
			if zzStep(st, func() { err = q.Add(e) }) {
				zzrt.Assert(err == nil, "queue-add-succeeds")
			} else {
				r.maybeGone = true
			}
			recs = append(recs, r)
		case 1: // Read: hand out up to n pending messages
			p := pending()
			if len(p) == 0 {
				zzrt.Assume(false) // Read would block: nothing to hand out
			}
			n := 1 + zzrt.Choice(2)
			pids := []packets.PacketID{}
			for i := 0; i < n; i++ {
				pids = append(pids, nextID)
				nextID++
			}
			var got []*queue.Elem
			var err error
			done := zzStep(st, func() { got, err = q.Read(pids) })
			if done {
				zzrt.Assert(err == nil, "queue-read-succeeds")
				want := p
				if len(want) > n {
					want = want[:n]
				}
				zzrt.Assert(len(got) == len(want), "read-hands-out-the-next-pending-messages")
				k := 0
				for i, r := range want {
					pub := got[i].MessageWithID.(*queue.Publish)
					zzrt.Assert(zzSameMsgBody(pub.Message, r.msg), "read-returns-the-queued-message")
					if r.msg.QoS == 0 {
						r.gone = true
					} else {
						zzrt.Assert(pub.PacketID == pids[k], "read-assigns-the-offered-identifiers-in-order")
						r.id = pids[k]
						k++
					}
				}
			} else {
				k := 0
				for i, r := range p {
					if i >= n {
						break
					}
					if r.msg.QoS == 0 {
						r.maybeGone = true
					} else {
						r.maybeID = pids[k]
						k++
					}
				}
			}
		case 2: // Remove an in-flight entry (PUBACK / PUBCOMP from the subscriber)
			f := inflight()
			if len(f) == 0 {
				zzrt.Assume(false)
			}
			r := f[zzrt.Choice(len(f))]
			var err error
			if zzStep(st, func() { err = q.Remove(r.id) }) {
				zzrt.Assert(err == nil, "queue-remove-succeeds")
				r.gone = true
			} else {
				r.maybeGone = true
			}
		case 3: // Replace a QoS2 PUBLISH in flight by its PUBREL (PUBREC from the subscriber)
			var f []*zzQRec
			for _, r := range inflight() {
				if r.msg.QoS == 2 && !r.rel {
					f = append(f, r)
				}
			}
			if len(f) == 0 {
				zzrt.Assume(false)
			}
			r := f[zzrt.Choice(len(f))]
			var ok bool
			var err error
			if zzStep(st, func() {
				ok, err = q.Replace(&queue.Elem{At: time.Now(), MessageWithID: &queue.Pubrel{PacketID: r.id}})
			}) {
				zzrt.Assert(err == nil && ok, "queue-replace-succeeds")
				r.rel = true
			} else {
				r.maybeRel = true
			}
		}
	}
	if st.Crashed {
		zzrt.Cover("crashed")
	} else {
		zzrt.Cover("no-crash")
	}
	// ---- restart ----
	b2 := zzStart(st.Survivor(), zzrt.Param("MAXQ"))
	b2.cfg.MQTT.InflightExpiry = infl
	q2, _ := b2.pe.NewQueueStore(b2.cfg, b2.noti, "c1")
	zzrt.Assert(zzQInit(q2, false, b2.noti) == nil, "restart-queue-init-succeeds")
	type outRec struct {
		e        *queue.Elem
		inflight bool
	}
	var out []outRec
	for round := 0; round < 8; round++ {
		es, err := q2.ReadInflight(2)
		zzrt.Assert(err == nil, "restart-read-inflight-succeeds")
		if len(es) == 0 {
			break
		}
		for _, e := range es {
			out = append(out, outRec{e, true})
		}
	}
	nInflight := len(out)
	total := b2.pe.pool != nil && true
	_ = total
	left := st.ListLen("queue:c1") - nInflight
	fresh := packets.PacketID(1000)
	for left > 0 {
		es, err := q2.Read([]packets.PacketID{fresh, fresh + 1})
		zzrt.Assert(err == nil, "restart-read-succeeds")
		zzrt.Assert(len(es) > 0, "restart-read-makes-progress")
		fresh += 2
		for _, e := range es {
			out = append(out, outRec{e, false})
		}
		left -= len(es)
	}
	zzrt.Observe("inflight", nInflight)
	zzrt.Observe("out", len(out))
	// ---- compare, in order ----
	oi := 0
	for _, r := range recs {
		if r.gone {
			continue
		}
		matched := false
		if oi < len(out) {
			o := out[oi]
			switch m := o.e.MessageWithID.(type) {
			case *queue.Publish:
				if zzSameMsgBody(m.Message, r.msg) && !r.rel {
					if o.inflight {
						// must carry the identifier it was handed out with
						if (r.id != 0 && m.PacketID == r.id) || (r.maybeID != 0 && m.PacketID == r.maybeID) {
							matched = true
						}
					} else if r.id == 0 {
						matched = true
					}
				}
			case *queue.Pubrel:
				if (r.rel || r.maybeRel) && o.inflight && m.PacketID == r.id {
					matched = true
				}
			}
		}
		if matched {
			oi++
			continue
		}
		if r.maybeGone || r.msg.QoS == 0 {
			continue
		}
		zzrt.Fail("acknowledged-unacked-message-redelivered-after-restart-in-order")
	}
	zzrt.Assert(oi == len(out), "nothing-but-the-acknowledged-messages-is-delivered-after-restart")
}
