package persistence

// C09 store-level crash harnesses: a history of real store calls, the server dying
// before an arbitrary command, fresh store objects over what survived.

import (
	"time"

	gmqtt "github.com/DrmagicE/gmqtt"
	"github.com/DrmagicE/gmqtt/persistence/queue"
	"github.com/DrmagicE/gmqtt/persistence/subscription"
	redis_sub "github.com/DrmagicE/gmqtt/persistence/subscription/redis"
	"github.com/DrmagicE/gmqtt/pkg/packets"
	"github.com/DrmagicE/gmqtt/zzredis"
	"github.com/DrmagicE/gmqtt/zzrt"
)

func zzSameSub(a, b *gmqtt.Subscription) bool {
	return zzrt.ConcreteBool(a.ShareName == b.ShareName && a.TopicFilter == b.TopicFilter && a.ID == b.ID &&
		a.QoS == b.QoS && a.NoLocal == b.NoLocal && a.RetainAsPublished == b.RetainAsPublished && a.RetainHandling == b.RetainHandling)
}

type zzSubExp struct {
	full string
	sub  *gmqtt.Subscription // nil: absent
}

// zzSubModel: the subscriptions each client holds if every call so far completed.
type zzSubModel struct {
	def [][]zzSubExp // per client: definite state
	unc [][]zzSubExp // per client: topics touched by the call the crash cut (old or new state allowed)
}

func (m *zzSubModel) get(c int, full string) *gmqtt.Subscription {
	for _, e := range m.def[c] {
		if e.full == full {
			return e.sub
		}
	}
	return nil
}

func (m *zzSubModel) set(c int, full string, s *gmqtt.Subscription) {
	for i, e := range m.def[c] {
		if e.full == full {
			m.def[c][i].sub = s
			return
		}
	}
	m.def[c] = append(m.def[c], zzSubExp{full, s})
}

func zzFilterPool() []*gmqtt.Subscription {
	return []*gmqtt.Subscription{
		{TopicFilter: "a"},
		{TopicFilter: "a/+"},
		{ShareName: "g", TopicFilter: "a"},
		{TopicFilter: "#"},
	}
}

// zzMkSub: filter i of the pool, symbolic identifier; QoS and the flag set are concrete
// (the memory index forks on the QoS, the codec on every flag): preset o of
// {QoS, NoLocal, RetainAsPublished, RetainHandling}.  ZZ_C09_SubCodec covers the codec
// for all option values.
func zzMkSub(i int, o int) *gmqtt.Subscription {
	p := zzFilterPool()[i]
	s := &gmqtt.Subscription{ShareName: p.ShareName, TopicFilter: p.TopicFilter}
	s.ID = zzrt.Uint32()
	switch o {
	case 0:
		s.QoS, s.NoLocal, s.RetainAsPublished, s.RetainHandling = 1, false, false, 0
	case 1:
		s.QoS, s.NoLocal, s.RetainAsPublished, s.RetainHandling = 2, true, false, 2
	case 2:
		s.QoS, s.NoLocal, s.RetainAsPublished, s.RetainHandling = 0, false, true, 1
	default:
		s.QoS, s.NoLocal, s.RetainAsPublished, s.RetainHandling = 2, true, true, 2
	}
	return s
}

// ZZ_C09_SubCodec: DecodeSubscription(EncodeSubscription(s)) == s for every option
// value, identifier, and share name / filter of up to N symbolic bytes.
func ZZ_C09_SubCodec() {
	n := zzrt.Param("N")
	s := &gmqtt.Subscription{ShareName: zzrt.String(zzrt.Choice(n + 1)), TopicFilter: zzrt.String(zzrt.Choice(n + 1)),
		ID: zzrt.Uint32(), QoS: zzrt.Byte(), NoLocal: zzrt.Bool(), RetainAsPublished: zzrt.Bool(), RetainHandling: zzrt.Byte()}
	g, err := redis_sub.DecodeSubscription(redis_sub.EncodeSubscription(s))
	zzrt.Assert(err == nil && g != nil, "stored-subscription-decodes")
	zzrt.Assert(zzSameSub(s, g), "subscription-codec-round-trips")
	zzrt.Observe("qos", g.QoS)
	zzrt.Observe("rh", g.RetainHandling)
	zzrt.Observe("id", g.ID)
	zzrt.Cover("codec")
}

// zzCheckSubs compares the subscriptions a restarted store holds with the model.
func zzCheckSubs(db subscription.Store, ids []string, m *zzSubModel) {
	for c, id := range ids {
		got := subscription.GetClientSubscriptions(db, id, subscription.TypeAll)
		for _, g := range got {
			full := subscription.GetFullTopicName(g.ShareName, g.TopicFilter)
			ok := false
			uncertain := false
			for _, u := range m.unc[c] {
				if u.full == full {
					uncertain = true
					if u.sub != nil && zzSameSub(g, u.sub) {
						ok = true
					}
				}
			}
			if d := m.get(c, full); d != nil && zzSameSub(g, d) {
				ok = true
			}
			_ = uncertain
			zzrt.Assert(ok, "restored-subscription-was-acknowledged-with-these-options")
		}
		for _, d := range m.def[c] {
			if d.sub == nil {
				continue
			}
			uncertain := false
			for _, u := range m.unc[c] {
				if u.full == d.full {
					uncertain = true
				}
			}
			if uncertain {
				continue
			}
			found := false
			for _, g := range got {
				if subscription.GetFullTopicName(g.ShareName, g.TopicFilter) == d.full {
					found = true
				}
			}
			zzrt.Assert(found, "acknowledged-subscription-restored")
		}
	}
}

// ZZ_C09_Subs: K Subscribe / Unsubscribe / UnsubscribeAll calls on NC clients, a crash
// before any storage command, then a fresh store's Init: exactly the acknowledged
// subscriptions minus the acknowledged unsubscriptions, with equal options, under the
// same client ids.
func ZZ_C09_Subs() {
	K, NC, NF, NQ := zzrt.Param("K"), zzrt.Param("NC"), zzrt.Param("NF"), zzrt.Param("NQ")
	st := zzredis.NewStore()
	st.Lazy = true
	b := zzStart(st, 10)
	ids := []string{zzrt.String(zzrt.Param("IDLEN")), "c1"}[:NC] // IDLEN != 2: never equal to "c1"
	m := &zzSubModel{def: make([][]zzSubExp, NC), unc: make([][]zzSubExp, NC)}
	for step := 0; step < K && !st.Crashed; step++ {
		c := zzrt.Choice(NC)
		switch zzrt.Choice(5) {
		case 0, 1: // Subscribe with one filter, or with two filters in one call (one pipeline)
			two := zzrt.Choice(2) == 1
			i := zzrt.Choice(NF)
			o := zzrt.Choice(NQ)
			subs := []*gmqtt.Subscription{zzMkSub(i, o)}
			if two {
				subs = append(subs, zzMkSub((i+1)%NF, (o+1)%NQ))
			}
			var err error
			done := zzStep(st, func() { _, err = b.subs.Subscribe(ids[c], subs...) })
			if done {
				zzrt.Assert(err == nil, "subscribe-succeeds")
				for _, s := range subs {
					m.set(c, subscription.GetFullTopicName(s.ShareName, s.TopicFilter), s)
				}
			} else {
				for _, s := range subs {
					m.unc[c] = append(m.unc[c], zzSubExp{subscription.GetFullTopicName(s.ShareName, s.TopicFilter), s})
				}
			}
		case 2: // Unsubscribe one or two filters
			p := zzFilterPool()
			i := zzrt.Choice(NF)
			topics := []string{subscription.GetFullTopicName(p[i].ShareName, p[i].TopicFilter)}
			if zzrt.Choice(2) == 1 {
				f2 := p[(i+1)%NF]
				topics = append(topics, subscription.GetFullTopicName(f2.ShareName, f2.TopicFilter))
			}
			var err error
			done := zzStep(st, func() { err = b.subs.Unsubscribe(ids[c], topics...) })
			if done {
				zzrt.Assert(err == nil, "unsubscribe-succeeds")
				for _, t := range topics {
					m.set(c, t, nil)
				}
			} else {
				for _, t := range topics {
					m.unc[c] = append(m.unc[c], zzSubExp{t, nil})
				}
			}
		case 3, 4:
			var err error
			done := zzStep(st, func() { err = b.subs.UnsubscribeAll(ids[c]) })
			if done {
				zzrt.Assert(err == nil, "unsubscribe-all-succeeds")
				m.def[c] = nil
			} else {
				for _, d := range m.def[c] {
					m.unc[c] = append(m.unc[c], zzSubExp{d.full, nil})
				}
			}
		}
	}
	// the running broker's own view (before any crash) agrees with the model too
	if !st.Crashed {
		zzCheckSubs(b.subs, ids, m)
		zzrt.Cover("no-crash")
	} else {
		zzrt.Cover("crashed")
	}
	zzrt.Observe("applied", st.Applied)
	b2 := zzStart(st.Survivor(), 10)
	err := b2.subs.Init(ids)
	zzrt.Assert(err == nil, "restart-subscription-init-succeeds")
	zzCheckSubs(b2.subs, ids, m)
	for c := range ids {
		zzrt.Observe("n", len(subscription.GetClientSubscriptions(b2.subs, ids[c], subscription.TypeAll)))
	}
}

// ZZ_C09_Unack: K Set / Remove calls on the QoS 2 identifier store, a crash before any
// command, then a fresh store with Init(false): an identifier recorded and not removed
// is recognised as a duplicate, any other identifier is not.
func ZZ_C09_Unack() {
	K := zzrt.Param("K")
	st := zzredis.NewStore()
	b := zzStart(st, 10)
	ua, _ := b.pe.NewUnackStore(b.cfg, "c1")
	zzrt.Assert(ua.Init(true) == nil, "unack-init")
	st.Lazy = true
	pool := []packets.PacketID{zzrt.Uint16(), zzrt.Uint16()}
	zzrt.Assume(pool[0] != pool[1])
	present := []bool{false, false}
	uncertain := []bool{false, false}
	for step := 0; step < K && !st.Crashed; step++ {
		i := zzrt.Choice(2)
		if zzrt.ConcreteBool(zzrt.Bool()) {
			var dup bool
			var err error
			if zzStep(st, func() { dup, err = ua.Set(pool[i]) }) {
				zzrt.Assert(err == nil, "unack-set-succeeds")
				zzrt.Assert(dup == present[i], "duplicate-recognised-iff-recorded")
				present[i] = true
			} else {
				uncertain[i] = true
			}
		} else {
			var err error
			if zzStep(st, func() { err = ua.Remove(pool[i]) }) {
				zzrt.Assert(err == nil, "unack-remove-succeeds")
				present[i] = false
			} else {
				uncertain[i] = true
			}
		}
	}
	if st.Crashed {
		zzrt.Cover("crashed")
	} else {
		zzrt.Cover("no-crash")
	}
	b2 := zzStart(st.Survivor(), 10)
	ua2, _ := b2.pe.NewUnackStore(b2.cfg, "c1")
	zzrt.Assert(ua2.Init(false) == nil, "restart-unack-init-succeeds")
	other := zzrt.Uint16()
	zzrt.Assume(other != pool[0] && other != pool[1])
	dup, err := ua2.Set(other)
	zzrt.Assert(err == nil && !dup, "unrecorded-identifier-not-a-duplicate-after-restart")
	for i := range pool {
		dup, err := ua2.Set(pool[i])
		zzrt.Assert(err == nil, "restart-unack-set-succeeds")
		zzrt.Observe("dup", dup)
		if !uncertain[i] {
			zzrt.Assert(dup == present[i], "qos2-identifier-awaiting-pubrel-recognised-after-restart")
		}
	}
}

var _ = queue.ErrClosed

// ZZ_C09_MsgCodec: what the redis stores write for a message (queue elements, the will
// of a session) reads back as the same message, for every field value; and a queue
// element keeps its entry / expiry instants (whole seconds) and its kind.
func ZZ_C09_MsgCodec() {
	// one length for all byte / string fields (0..N): the codec treats them alike
	l := zzrt.Choice(zzrt.Param("N") + 1)
	m := &gmqtt.Message{Dup: zzrt.Bool(), QoS: zzrt.Byte(), Retained: zzrt.Bool(), Topic: zzrt.String(l), Payload: zzrt.Bytes(l),
		PacketID: zzrt.Uint16(), ContentType: zzrt.String(l), CorrelationData: zzrt.Bytes(l), MessageExpiry: zzrt.Uint32(),
		PayloadFormat: zzrt.Byte(), ResponseTopic: zzrt.String(l)}
	if zzrt.Choice(2) == 1 {
		id := zzrt.Uint32()
		zzrt.Assume(id >= 1 && id <= 268435455)
		m.SubscriptionIdentifier = []uint32{id, 7}
		m.UserProperties = []packets.UserProperty{{K: zzrt.Bytes(l), V: zzrt.Bytes(l)}}
	}
	at, exp := int64(zzrt.Uint32()), int64(zzrt.Uint32())
	e := &queue.Elem{At: time.Unix(at, 0), MessageWithID: &queue.Publish{Message: m}}
	if zzrt.ConcreteBool(exp != 0) {
		e.Expiry = time.Unix(exp, 0)
	}
	g := &queue.Elem{}
	zzrt.Assert(g.Decode(e.Encode()) == nil, "stored-element-decodes")
	gp, ok := g.MessageWithID.(*queue.Publish)
	zzrt.Assert(ok && gp.Message != nil, "stored-publish-decodes-as-publish")
	zzrt.Assert(g.At.Unix() == at, "entry-time-round-trips")
	zzrt.Assert(g.Expiry.IsZero() == e.Expiry.IsZero() && (e.Expiry.IsZero() || g.Expiry.Unix() == exp), "expiry-time-round-trips")
	a, b := zzrt.Flatten(*m), zzrt.Flatten(*gp.Message)
	zzrt.Assert(len(a) == len(b), "message-codec-round-trips-every-field")
	same := true
	for i := range a {
		if i < len(b) {
			same = zzrt.And(same, a[i] == b[i])
		}
	}
	zzrt.Assert(same, "message-codec-round-trips-every-field")
	zzrt.Observe("qos", gp.Message.QoS)
	zzrt.Observe("pid", gp.Message.PacketID)
	// a PUBREL element
	id := zzrt.Uint16()
	r := &queue.Elem{At: time.Unix(at, 0), MessageWithID: &queue.Pubrel{PacketID: id}}
	g2 := &queue.Elem{}
	zzrt.Assert(g2.Decode(r.Encode()) == nil, "stored-pubrel-decodes")
	rel, isRel := g2.MessageWithID.(*queue.Pubrel)
	zzrt.Assert(isRel && rel.PacketID == id, "pubrel-round-trips")
	zzrt.Cover("codec")
}
