package persistence

import (
	"github.com/DrmagicE/gmqtt/config"
	"github.com/DrmagicE/gmqtt/server"
	"github.com/DrmagicE/gmqtt/zzredis"
)

// zzRedisPE is the real redis persistence with Open replaced: instead of dialling
// config.Persistence.Redis.Addr the pool reaches the zzredis stand-in (Open's PING is
// kept).  Every New*Store method is the real one.
type zzRedisPE struct {
	redis
	st *zzredis.Store
}

func (r *zzRedisPE) Open() error {
	r.pool = zzredis.NewPool(r.st)
	conn := r.pool.Get()
	defer conn.Close()
	_, err := conn.Do("PING")
	return err
}

func ZZNewRedis(cfg config.Config, st *zzredis.Store) server.Persistence {
	return &zzRedisPE{redis: redis{config: cfg}, st: st}
}
