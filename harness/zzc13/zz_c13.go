// Package zzc13 is the entry point of the C13 harness that needs both the broker
// (package server) and the real memory queue (package persistence/queue/mem imports
// server): it wires the queue constructor in and runs the body in package server.
package zzc13

import (
	"github.com/DrmagicE/gmqtt/persistence/queue"
	mem_queue "github.com/DrmagicE/gmqtt/persistence/queue/mem"
	"github.com/DrmagicE/gmqtt/server"
	"github.com/DrmagicE/gmqtt/topicalias/fifo"
)

func ZZ_C13_SizeOutResume() {
	server.ZZMemQueue = func(max int, n queue.Notifier) queue.Store {
		q, _ := mem_queue.New(mem_queue.Options{MaxQueuedMsg: max, ClientID: "c1", DefaultNotifier: n})
		return q
	}
	server.ZZC13SizeOutResume()
}

func ZZ_C13_AliasSize() {
	server.ZZMemQueue = func(max int, n queue.Notifier) queue.Store {
		q, _ := mem_queue.New(mem_queue.Options{MaxQueuedMsg: max, ClientID: "c1", DefaultNotifier: n})
		return q
	}
	server.ZZFifoAlias = fifo.New
	server.ZZC13AliasSize()
}
