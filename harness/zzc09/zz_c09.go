// Package zzc09 is the entry point of the broker-level C09 harness: it can import both
// the broker (package server) and the redis persistence (package persistence imports
// server), wires the two together and runs the harness body that lives in package
// server (it needs the unexported handlers).
package zzc09

import (
	"github.com/DrmagicE/gmqtt/persistence"
	"github.com/DrmagicE/gmqtt/server"
	"github.com/DrmagicE/gmqtt/topicalias/fifo"
)

func ZZ_C09_Broker() {
	server.ZZRedisFactory = persistence.ZZNewRedis
	server.ZZAliasFactory = fifo.New // the engine initialises packages on first use: a blank import registers nothing
	server.ZZC09Broker()
}

// ZZ_C20_Restart: entry of the C20 restart harness (same wiring).
func ZZ_C20_Restart() {
	server.ZZRedisFactory = persistence.ZZNewRedis
	server.ZZAliasFactory = fifo.New
	server.ZZC20Restart()
}
