package auth

import (
	"context"

	"github.com/DrmagicE/gmqtt/server"
	"github.com/DrmagicE/gmqtt/zzrt"
)


// ZZ_C19_Restart: an account created through the API (real saveFileHandler) is what a
// restarted broker (fresh plugin instance, real Load) authenticates against.
func ZZ_C19_Restart() {
	zzDirs := []string{"", ".", "cfg", "cfg/sub"}
	zzFiles := []string{"pw.yml", "./pw.yml", "sub/pw.yml"}
	dir := zzDirs[zzrt.Choice(len(zzDirs))]
	file := zzFiles[zzrt.Choice(len(zzFiles))]
	done := zzFS(dir, file)
	defer done()
	registerAPI = func(server.Server, *Auth) error { return nil }
	a := zzNewAuth(Plain, dir, file)
	a.saveFile = a.saveFileHandler
	zzrt.Assert(a.Load(nil) == nil, "first-start-loads")
	p := zzrt.String(1)
	_, err := a.Update(context.Background(), &UpdateAccountRequest{Username: "u1", Password: p})
	zzrt.Assert(err == nil, "update-persisted")
	zzrt.Observe("dir", zzrt.Choice(1))
	// restart
	b := zzNewAuth(Plain, dir, file)
	zzrt.Assert(b.Load(nil) == nil, "restart-loads")
	ok, err := b.validate("u1", p)
	zzrt.Assert(err == nil && ok, "restarted-broker-loads-the-updated-accounts")
	zzrt.Cover("restarted")
}
