package auth

import (
	"context"

	"github.com/DrmagicE/gmqtt/server"
	"github.com/DrmagicE/gmqtt/zzrt"
)


// ZZ_C19_Restart: an account created through the API (real saveFileHandler) is what a
// restarted broker (fresh plugin instance, real Load) authenticates against.
func ZZ_C19_Restart() {
	zzDirs := []string{"", ".", "cfg", "cfg/sub"}
	zzFiles := []string{"pw.yml", "./pw.yml", "sub/pw.yml"}
	dir := zzDirs[zzrt.Choice(len(zzDirs))]
	file := zzFiles[zzrt.Choice(len(zzFiles))]
	done := zzFS(dir, file)
	defer done()
	registerAPI = func(server.Server, *Auth) error { return nil }
	a := zzNewAuth(Plain, dir, file)
	a.saveFile = a.saveFileHandler
	zzrt.Assert(a.Load(nil) == nil, "first-start-loads")
	p := zzrt.String(1)
	_, err := a.Update(context.Background(), &UpdateAccountRequest{Username: "u1", Password: p})
	zzrt.Assert(err == nil, "update-persisted")
	zzrt.Observe("dir", zzrt.Choice(1))
	// more account API calls before the restart: a second account, deletions (possibly of
	// every account: the file must then say so)
	have := map[string]bool{"u1": true}
	p2 := zzrt.String(1)
	for step := 0; step < zzrt.Param("K"); step++ {
		switch zzrt.Choice(4) {
		case 0:
			_, err := a.Update(context.Background(), &UpdateAccountRequest{Username: "u2", Password: p2})
			zzrt.Assert(err == nil, "second-update-persisted")
			have["u2"] = true
		case 1:
			_, err := a.Delete(context.Background(), &DeleteAccountRequest{Username: "u1"})
			zzrt.Assert(err == nil, "delete-persisted")
			have["u1"] = false
			zzrt.Cover("deleted")
		case 2:
			_, err := a.Delete(context.Background(), &DeleteAccountRequest{Username: "u2"})
			zzrt.Assert(err == nil, "delete-persisted")
			have["u2"] = false
		}
	}
	// restart
	b := zzNewAuth(Plain, dir, file)
	zzrt.Assert(b.Load(nil) == nil, "restart-loads")
	ok, err := b.validate("u1", p)
	zzrt.Assert(err == nil && ok == have["u1"], "restarted-broker-loads-exactly-the-accounts-of-the-api")
	ok2, err := b.validate("u2", p2)
	zzrt.Assert(err == nil && ok2 == have["u2"], "restarted-broker-loads-exactly-the-accounts-of-the-api")
	zzrt.Cover("restarted")
}
