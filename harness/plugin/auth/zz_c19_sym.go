//go:build zzsym

package auth

// Symbolic-mode models: an in-memory file system (cwd "/cwd") behind os.OpenFile /
// ioutil.TempFile / os.Rename / (*os.File).Read|Write|Close|Name, a line codec in
// place of yaml.v2 (reflection), and an injective tagged encoding in place of bcrypt.

import (
	"errors"
	"hash"
	"io"
	"os"
	"path"
)

type zzFile struct {
	name string
	pos  int
}

var zzFiles2 = map[string][]byte{}
var zzOpen = map[*os.File]*zzFile{}
var zzTmpSeq int

func zzAbs(name string) string {
	if path.IsAbs(name) {
		return path.Clean(name)
	}
	return path.Join("/cwd", name)
}

func zzFS(dir, file string) func() {
	zzFiles2 = map[string][]byte{}
	zzOpen = map[*os.File]*zzFile{}
	return func() {}
}

func ZZM_osOpenFile(name string, flag int, perm os.FileMode) (*os.File, error) {
	abs := zzAbs(name)
	if _, ok := zzFiles2[abs]; !ok {
		if flag&os.O_CREATE == 0 {
			return nil, os.ErrNotExist
		}
		zzFiles2[abs] = []byte{}
	}
	f := &os.File{}
	zzOpen[f] = &zzFile{name: abs}
	return f, nil
}

func ZZM_ioutilTempFile(dir, pattern string) (*os.File, error) {
	zzTmpSeq++
	name := path.Join(dir, pattern+"123")
	abs := zzAbs(name)
	zzFiles2[abs] = []byte{}
	f := &os.File{}
	zzOpen[f] = &zzFile{name: name}
	return f, nil
}

func ZZM_fileRead(f *os.File, p []byte) (int, error) {
	st := zzOpen[f]
	data := zzFiles2[zzAbs(st.name)]
	if st.pos >= len(data) {
		return 0, io.EOF
	}
	n := copy(p, data[st.pos:])
	st.pos += n
	return n, nil
}

func ZZM_fileWrite(f *os.File, p []byte) (int, error) {
	st := zzOpen[f]
	abs := zzAbs(st.name)
	zzFiles2[abs] = append(zzFiles2[abs], p...)
	return len(p), nil
}

func ZZM_fileClose(f *os.File) error { return nil }
func ZZM_fileName(f *os.File) string { return zzOpen[f].name }

func ZZM_osRename(oldp, newp string) error {
	o, n := zzAbs(oldp), zzAbs(newp)
	data, ok := zzFiles2[o]
	if !ok {
		return os.ErrNotExist
	}
	// the target directory must exist: "/cwd", "/" and the directories the scenario created
	zzFiles2[n] = data
	delete(zzFiles2, o)
	return nil
}

// yaml model: length-prefixed records [ulen][user][plen][pass]
func ZZM_yamlMarshal(in interface{}) ([]byte, error) {
	acts, ok := in.([]*Account)
	if !ok {
		return nil, errors.New("yaml model: unsupported value")
	}
	var out []byte
	for _, a := range acts {
		out = append(out, byte(len(a.Username)))
		out = append(out, a.Username...)
		out = append(out, byte(len(a.Password)))
		out = append(out, a.Password...)
	}
	return out, nil
}

func ZZM_yamlUnmarshal(in []byte, out interface{}) error {
	p, ok := out.(*[]*Account)
	if !ok {
		return errors.New("yaml model: unsupported target")
	}
	i := 0
	for i < len(in) {
		ul := int(in[i])
		u := string(in[i+1 : i+1+ul])
		i += 1 + ul
		pl := int(in[i])
		pw := string(in[i+1 : i+1+pl])
		i += 1 + pl
		*p = append(*p, &Account{Username: u, Password: pw})
	}
	return nil
}

// bcrypt model: injective tagged encoding of the password
func ZZM_bcryptGenerate(password []byte, cost int) ([]byte, error) {
	return append([]byte("$bc$"), password...), nil
}

func ZZM_bcryptCompare(hashed, password []byte) error {
	want := append([]byte("$bc$"), password...)
	if string(hashed) == string(want) {
		return nil
	}
	return errors.New("mismatch")
}

// md5 / sha256 model: an injective, deterministic encoding of the input (tag, length,
// bytes, zero padding) of the real digest size.  The glue logic under test only needs
// "same input => same digest, different input => different digest" for the bounded
// inputs; the hash functions themselves are trusted.
type zzHashModel struct {
	tag  byte
	size int
	data []byte
}

func (h *zzHashModel) Write(p []byte) (int, error) { h.data = append(h.data, p...); return len(p), nil }
func (h *zzHashModel) Sum(b []byte) []byte {
	out := make([]byte, h.size)
	out[0], out[1] = h.tag, byte(len(h.data))
	copy(out[2:], h.data)
	return append(b, out...)
}
func (h *zzHashModel) Reset()         { h.data = nil }
func (h *zzHashModel) Size() int      { return h.size }
func (h *zzHashModel) BlockSize() int { return 64 }

func ZZM_md5New() hash.Hash    { return &zzHashModel{tag: 1, size: 16} }
func ZZM_sha256New() hash.Hash { return &zzHashModel{tag: 2, size: 32} }
