//go:build !zzsym

package auth

import (
	"os"
	"path"
)

// zzFS: natively the real file system under a fresh temporary working directory.
func zzFS(dir, file string) func() {
	old, _ := os.Getwd()
	tmp, err := os.MkdirTemp("", "zzc19")
	if err != nil {
		panic(err)
	}
	if err := os.Chdir(tmp); err != nil {
		panic(err)
	}
	// directories the scenario refers to, when they are relative (absolute ones are
	// left alone: a scenario that needs /etc/g or /abs fails to start and is reported)
	for _, d := range []string{dir, path.Dir(file), path.Join(dir, path.Dir(file))} {
		if d != "" && !path.IsAbs(d) {
			os.MkdirAll(d, 0o755)
		}
	}
	return func() { os.Chdir(old); os.RemoveAll(tmp) }
}
