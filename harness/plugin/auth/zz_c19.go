package auth

// C19 — with the auth plugin enabled a CONNECT is accepted iff its user name is a
// stored account and its password matches that account's stored hash; account changes
// take effect for the next CONNECT and are what a restarted broker loads.

import (
	"context"
	"net"
	"time"

	"go.uber.org/zap"

	gmqtt "github.com/DrmagicE/gmqtt"
	"github.com/DrmagicE/gmqtt/pkg/codes"
	"github.com/DrmagicE/gmqtt/pkg/packets"
	"github.com/DrmagicE/gmqtt/plugin/admin"
	"github.com/DrmagicE/gmqtt/server"
	"github.com/DrmagicE/gmqtt/zzrt"
)

type zzClient struct{ v packets.Version }

func (c zzClient) ClientOptions() *server.ClientOptions { return &server.ClientOptions{} }
func (c zzClient) SessionInfo() *gmqtt.Session          { return nil }
func (c zzClient) Version() packets.Version             { return c.v }
func (c zzClient) ConnectedAt() time.Time               { return time.Time{} }
func (c zzClient) Connection() net.Conn                 { return nil }
func (c zzClient) Close()                               {}
func (c zzClient) Disconnect(*packets.Disconnect)       {}

// (package initialisers are not run for this package in symbolic mode: no package-level tables)
func zzHashes() []string { return []string{Plain, MD5, SHA256, Bcrypt} }

func zzNewAuth(hash, dir, file string) *Auth {
	a := &Auth{config: &Config{Hash: hash, PasswordFile: file}, indexer: admin.NewIndexer(), pwdDir: dir}
	a.saveFile = func() error { return nil }
	if log == nil {
		log = zap.NewNop() // set by Load in production
	}
	return a
}

// ZZ_C19_Gate: the real OnBasicAuthWrapper around a permissive base hook, an account
// store filled through the real Update (real hash functions), and a CONNECT with
// symbolic credentials and flags.
func ZZ_C19_Gate() {
	alg := zzHashes()[zzrt.Choice(zzrt.Param("ALGS"))]
	a := zzNewAuth(alg, "", "pw.yml")
	N := zzrt.Param("N")
	// stored accounts: "alice" with a symbolic password, "bob" with the empty password
	pa := zzrt.String(zzrt.Choice(N + 1))
	_, err := a.Update(context.Background(), &UpdateAccountRequest{Username: "alice", Password: pa})
	zzrt.Assert(err == nil, "account-created")
	_, err = a.Update(context.Background(), &UpdateAccountRequest{Username: "bob", Password: ""})
	zzrt.Assert(err == nil, "account-created")
	// the CONNECT
	ver := []packets.Version{packets.Version31, packets.Version311, packets.Version5}[zzrt.Choice(3)]
	conn := &packets.Connect{Version: ver}
	user := ""
	if zzrt.ConcreteBool(zzrt.Bool()) {
		conn.UsernameFlag = true
		user = []string{"alice", "bob", "alicf", "", "alice "}[zzrt.Choice(5)]
		conn.Username = []byte(user)
	}
	pw := ""
	if zzrt.ConcreteBool(zzrt.Bool()) {
		conn.PasswordFlag = true
		pw = zzrt.String(zzrt.Choice(N + 1))
		conn.Password = []byte(pw)
	}
	hook := a.OnBasicAuthWrapper(func(ctx context.Context, c server.Client, req *server.ConnectRequest) error { return nil })
	verdict := hook(context.Background(), zzClient{ver}, &server.ConnectRequest{Connect: conn})
	want := false
	switch user {
	case "alice":
		want = zzrt.ConcreteBool(pw == pa)
	case "bob":
		want = zzrt.ConcreteBool(pw == "")
	}
	zzrt.Observe("accepted", verdict == nil)
	zzrt.Assert((verdict == nil) == want, "accepted-iff-stored-account-and-matching-password")
	if verdict != nil {
		ce, ok := verdict.(*codes.Error)
		if ver == packets.Version5 {
			zzrt.Assert(ok && ce.Code == codes.NotAuthorized, "v5-rejection-is-not-authorized")
		} else {
			zzrt.Assert(ok && ce.Code == codes.V3NotAuthorized, "v3-rejection-is-not-authorized")
		}
		zzrt.Cover("rejected")
	} else {
		zzrt.Cover("accepted")
	}
}

// ZZ_C19_Accounts: a history of account API calls; the last write wins, deletion
// revokes, for the next CONNECT.
func ZZ_C19_Accounts() {
	K := zzrt.Param("K")
	alg := zzHashes()[zzrt.Choice(2)] // plain, md5
	a := zzNewAuth(alg, "", "pw.yml")
	saves := 0
	a.saveFile = func() error { saves++; return nil }
	users := []string{"u1", "u2"}
	ref := map[string]string{}
	has := map[string]bool{}
	for i := 0; i < K; i++ {
		u := users[zzrt.Choice(2)]
		if zzrt.Choice(2) == 0 {
			p := zzrt.String(1)
			_, err := a.Update(context.Background(), &UpdateAccountRequest{Username: u, Password: p})
			zzrt.Assert(err == nil, "update-ok")
			ref[u], has[u] = p, true
		} else {
			_, err := a.Delete(context.Background(), &DeleteAccountRequest{Username: u})
			zzrt.Assert(err == nil, "delete-ok")
			delete(ref, u)
			has[u] = false
		}
	}
	u := users[zzrt.Choice(2)]
	p := zzrt.String(1)
	ok, err := a.validate(u, p)
	zzrt.Assert(err == nil, "validate-ok")
	want := has[u] && zzrt.ConcreteBool(p == ref[u])
	zzrt.Assert(ok == want, "last-account-change-takes-effect")
	zzrt.Cover("accounts-done")
}
