//go:build zzsym

package federation

import "google.golang.org/grpc"

// zzConn: the symbolic run never dials; (*grpc.ClientConn).Close is a zero stub there.
func zzConn() *grpc.ClientConn { return &grpc.ClientConn{} }

// ZZM_uuidNew stands in for uuid.New in the symbolic run (its random source is a
// package variable that skip_init leaves unset): distinct ids from a counter.
var zzUUIDCounter byte

func ZZM_uuidNew() (u [16]byte) {
	zzUUIDCounter++
	u[15] = zzUUIDCounter
	return
}
