//go:build !zzsym

package federation

import (
	"google.golang.org/grpc"
	"google.golang.org/grpc/credentials/insecure"
)

// zzConn: an idle client connection (never dialled) so that stream.setError can Close it.
func zzConn() *grpc.ClientConn {
	c, err := grpc.NewClient("passthrough:///zz", grpc.WithTransportCredentials(insecure.NewCredentials()))
	if err != nil {
		panic(err)
	}
	return c
}
