package federation

// C17 — federation routing: forwarded to exactly the nodes that need it, delivered once.

import (
	gmqtt "github.com/DrmagicE/gmqtt"
	"github.com/DrmagicE/gmqtt/persistence/subscription"
	submem "github.com/DrmagicE/gmqtt/persistence/subscription/mem"
	"github.com/DrmagicE/gmqtt/zzref"
	"github.com/DrmagicE/gmqtt/zzrt"
)

func zzAllSubs() subscription.IterationOptions {
	return subscription.IterationOptions{Type: subscription.TypeAll}
}

// zzRecQ is a recording implementation of the package's own queue interface.
type zzRecQ struct{ events []*Event }

func (q *zzRecQ) clear()                    {}
func (q *zzRecQ) close()                    {}
func (q *zzRecQ) open()                     {}
func (q *zzRecQ) setReadPosition(id uint64) {}
func (q *zzRecQ) add(e *Event)              { q.events = append(q.events, e) }
func (q *zzRecQ) fetchEvents() []*Event     { return nil }
func (q *zzRecQ) ack(id uint64)             {}

type zzSub struct {
	node, share, filter string
}

// ZZ_C17_Route: node n0 with peers n1, n2; S remote subscriptions known through the
// federation store and L local ones; one message through the real sendMessage.
func ZZ_C17_Route() {
	S, L := zzrt.Param("S"), zzrt.Param("L")
	f := zzNewFed("n0")
	local := submem.NewStore()
	f.localSubStore.init(local)
	qs := map[string]*zzRecQ{}
	for _, n := range []string{"n1", "n2"} {
		q := &zzRecQ{}
		qs[n] = q
		f.peers[n] = &peer{fed: f, localName: "n0", queue: q}
	}
	filters := []string{"a", "a/+", "#"}
	shares := []string{"", "g1", "g2"}
	var subs []zzSub
	add := func(node string) {
		s := zzSub{node, shares[zzrt.Choice(len(shares))], filters[zzrt.Choice(len(filters))]}
		for _, o := range subs {
			if o == s {
				return
			}
		}
		subs = append(subs, s)
		gs := &gmqtt.Subscription{ShareName: s.share, TopicFilter: s.filter}
		if node == "n0" {
			local.Subscribe("c-"+s.share+s.filter, gs)
		} else {
			f.fedSubStore.Subscribe(node, gs)
		}
	}
	for i := 0; i < S; i++ {
		add([]string{"n1", "n2"}[zzrt.Choice(2)])
	}
	for i := 0; i < L; i++ {
		add("n0")
	}
	topic := []string{"a", "a/b"}[zzrt.Choice(2)]
	retained := zzrt.ConcreteBool(zzrt.Bool())
	f.fedSubStore.sharedSent["$share/g1/a"] = zzrt.Uint64()
	f.fedSubStore.sharedSent["$share/g1/a/+"] = zzrt.Uint64()
	f.fedSubStore.sharedSent["$share/g1/#"] = zzrt.Uint64()
	f.fedSubStore.sharedSent["$share/g2/a"] = zzrt.Uint64()
	f.fedSubStore.sharedSent["$share/g2/a/+"] = zzrt.Uint64()
	f.fedSubStore.sharedSent["$share/g2/#"] = zzrt.Uint64()
	drop, opts := f.sendMessage(&gmqtt.Message{Topic: topic, Retained: retained, Payload: []byte{1}})

	got := map[string]int{}
	for n, q := range qs {
		got[n] = len(q.events)
		zzrt.Assert(len(q.events) <= 1, "at-most-one-event-per-peer")
		for _, e := range q.events {
			zzrt.Assert(e.GetMessage() != nil && e.GetMessage().TopicName == topic, "forwarded-event-carries-the-message")
		}
	}
	zzrt.Observe("retained", retained)
	if retained {
		zzrt.Assert(got["n1"] == 1 && got["n2"] == 1, "retained-message-sent-to-all-peers")
		zzrt.Assert(!drop && opts == nil, "retained-message-local-delivery-unchanged")
		zzrt.Cover("retained")
		return
	}
	// which nodes need the message
	matches := func(s zzSub) bool { return zzref.MatchLevels(topic, s.filter) }
	nonShared := map[string]bool{}
	type grp struct{ share, filter string }
	groups := map[grp][]string{} // group -> nodes with a member
	var groupOrder []grp
	for _, s := range subs {
		if !matches(s) {
			continue
		}
		if s.share == "" {
			nonShared[s.node] = true
			continue
		}
		g := grp{s.share, s.filter}
		if groups[g] == nil {
			groupOrder = append(groupOrder, g)
		}
		groups[g] = append(groups[g], s.node)
	}
	zzrt.Observe("groups", len(groupOrder))
	for _, n := range []string{"n1", "n2"} {
		needs := nonShared[n]
		memberOfSomeGroup := false
		for _, g := range groupOrder {
			for _, m := range groups[g] {
				if m == n {
					memberOfSomeGroup = true
				}
			}
		}
		if needs {
			zzrt.Assert(got[n] == 1, "node-with-matching-subscription-receives-it")
		}
		if !needs && !memberOfSomeGroup {
			zzrt.Assert(got[n] == 0, "node-without-matching-subscription-receives-nothing")
		}
	}
	// local delivery: non-shared local subscribers must still be served
	localShared := opts == nil || opts.Type&subscription.TypeShared != 0
	if nonShared["n0"] {
		zzrt.Assert(!drop, "local-non-shared-subscribers-still-served")
		zzrt.Assert(opts == nil || opts.Type&(subscription.TypeNonShared|subscription.TypeSYS) == subscription.TypeNonShared|subscription.TypeSYS, "options-exclude-only-shared-subscriptions")
	}
	// every share group spanning the federation is served exactly once
	for _, g := range groupOrder {
		served := 0
		for _, n := range groups[g] {
			if n == "n0" {
				if !drop && localShared {
					served++
				}
			} else if got[n] == 1 {
				served++ // the receiving node delivers to every matching local group
			}
		}
		// diagnostics for the known routing flaws: a contributor is "explained" when it would
		// be served / receive the event for an independent reason (a matching non-shared
		// subscription, or membership in another matching group)
		explained := 0
		hasLocal := false
		for _, n := range groups[g] {
			other := nonShared[n]
			for _, g2 := range groupOrder {
				if g2 == g {
					continue
				}
				for _, m := range groups[g2] {
					if m == n {
						other = true
					}
				}
			}
			if n == "n0" {
				hasLocal = true
				if !drop && localShared && other {
					explained++
				}
			} else if got[n] == 1 && other {
				explained++
			}
		}
		unexplained := 0
		if served-1-explained > 0 {
			unexplained = served - 1 - explained
		}
		starvedLocal := 0
		if hasLocal && (drop || !localShared) {
			starvedLocal = 1
		}
		zzrt.Observe("served", served)
		zzrt.Observe("unexplained", unexplained)
		zzrt.Observe("starvedlocal", starvedLocal)
		zzrt.Assert(served >= 1, "share-group-served-at-least-once-in-the-federation")
		zzrt.Assert(served <= 1, "share-group-served-at-most-once-in-the-federation")
	}
	zzrt.Cover("routed")
}

// ZZ_C17_Receive: a message event arriving from a peer is published locally exactly
// once, field for field, never re-forwarded, and updates / clears the retained store.
func ZZ_C17_Receive() {
	f := zzNewFed("n0")
	qs := map[string]*zzRecQ{}
	for _, n := range []string{"n1", "n2"} {
		q := &zzRecQ{}
		qs[n] = q
		f.peers[n] = &peer{fed: f, localName: "n0", queue: q}
	}
	f.retainedStore.AddOrReplace(&gmqtt.Message{Topic: "t", Retained: true, Payload: []byte("old")})
	retained := zzrt.ConcreteBool(zzrt.Bool())
	plen := zzrt.Choice(2)
	m := &gmqtt.Message{Topic: "t", QoS: uint8(zzrt.Choice(3)), Retained: retained, Payload: zzrt.Bytes(plen), ContentType: "ct", ResponseTopic: "rt", CorrelationData: []byte("cd"), MessageExpiry: zzrt.Uint32(), PayloadFormat: byte(zzrt.Choice(2))}
	sess := &session{id: "s", nodeName: "n1", seenEvents: newLRUCache(100), close: make(chan struct{})}
	ev := &Event{Id: zzrt.Uint64(), Event: &Event_Message{Message: messageToEvent(m)}}
	ack := f.eventStreamHandler(sess, ev)
	zzrt.Assert(ack != nil && ack.EventId == ev.Id, "event-acknowledged-with-its-id")
	pub := f.publisher.(*zzPublisher)
	zzrt.Assert(len(pub.got) == 1, "published-locally-exactly-once")
	g := pub.got[0]
	zzrt.Assert(g.Topic == m.Topic && g.QoS == m.QoS && g.Retained == m.Retained && zzrt.BytesEq(g.Payload, m.Payload) && g.ContentType == m.ContentType && g.ResponseTopic == m.ResponseTopic && string(g.CorrelationData) == "cd" && g.MessageExpiry == m.MessageExpiry && g.PayloadFormat == m.PayloadFormat, "message-fields-preserved-across-the-federation")
	zzrt.Assert(len(qs["n1"].events) == 0 && len(qs["n2"].events) == 0, "received-message-is-not-re-forwarded")
	// a duplicate of the same event is ignored
	ack2 := f.eventStreamHandler(sess, ev)
	zzrt.Assert(ack2 != nil && ack2.EventId == ev.Id && len(pub.got) == 1, "duplicate-event-applied-once")
	rt := f.retainedStore.GetRetainedMessage("t")
	zzrt.Observe("retained", retained)
	zzrt.Observe("plen", plen)
	switch {
	case !retained:
		zzrt.Assert(rt != nil && string(rt.Payload) == "old", "non-retained-message-leaves-retained-store")
	case plen == 0:
		zzrt.Assert(rt == nil, "retained-empty-payload-clears-the-peer-retained-store")
		zzrt.Cover("cleared")
	default:
		zzrt.Assert(rt != nil && zzrt.BytesEq(rt.Payload, m.Payload), "retained-message-updates-the-peer-retained-store")
		zzrt.Cover("stored")
	}
}

// ZZ_C17_RouteQueues: the same routing step with the REAL per-peer event queues, which
// stand at arbitrary (symbolic) positions of their streams: whatever is routed to a peer
// is appended to that peer's stream under that stream's own next sequence number (the
// receiver de-duplicates by it) — also when one message goes to several peers at once.
func ZZ_C17_RouteQueues() {
	f := zzNewFed("n0")
	local := submem.NewStore()
	f.localSubStore.init(local)
	names := []string{"n1", "n2"}
	qs := map[string]*eventQueue{}
	pos := map[string]uint64{}
	for _, n := range names {
		q := newEventQueue()
		p := zzrt.Uint64()
		zzrt.Assume(p < 1<<62)
		q.nextID = p
		pos[n] = p
		qs[n] = q
		f.peers[n] = &peer{fed: f, localName: "n0", queue: q}
	}
	zzrt.Observe("p1", pos["n1"])
	zzrt.Observe("p2", pos["n2"])
	retained := zzrt.ConcreteBool(zzrt.Bool())
	if !retained {
		// a plain subscriber behind each peer
		f.fedSubStore.Subscribe("n1", &gmqtt.Subscription{TopicFilter: "a"})
		f.fedSubStore.Subscribe("n2", &gmqtt.Subscription{TopicFilter: "a"})
	}
	f.sendMessage(&gmqtt.Message{Topic: "a", Retained: retained, Payload: []byte{1}})
	// a second message that only n1 needs
	f.fedSubStore.Subscribe("n1", &gmqtt.Subscription{TopicFilter: "b"})
	f.sendMessage(&gmqtt.Message{Topic: "b", Payload: []byte{2}})
	want := map[string][]byte{"n1": {1, 2}, "n2": {1}}
	for _, n := range names {
		evs := qs[n].fetchEvents()
		zzrt.Assert(len(evs) == len(want[n]), "each-peer-stream-holds-what-was-routed-to-it")
		for i, e := range evs {
			if i >= len(want[n]) {
				break
			}
			zzrt.Assert(e.GetMessage() != nil && len(e.GetMessage().Payload) == 1 && e.GetMessage().Payload[0] == want[n][i], "stream-order-is-routing-order")
			zzrt.Assert(e.Id == pos[n]+uint64(i), "event-carries-the-next-sequence-number-of-its-own-stream")
		}
	}
	zzrt.Cover("queues")
}
