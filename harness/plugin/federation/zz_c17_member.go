package federation

// C17 — routing after membership changes: a node that failed / left is no longer a
// routing target and its subscriptions no longer attract (or swallow) messages.

import (
	gmqtt "github.com/DrmagicE/gmqtt"
	"github.com/DrmagicE/gmqtt/zzref"
	"github.com/DrmagicE/gmqtt/zzrt"
	"github.com/hashicorp/serf/serf"
	"google.golang.org/grpc/metadata"

	"context"
)

func zzMsgEvents(p *peer) int {
	if p == nil {
		return 0
	}
	n := 0
	for _, e := range zzEventList(p.queue.(*eventQueue)) {
		if e.GetMessage() != nil {
			n++
		}
	}
	return n
}

// ZZ_C17_Membership: K membership / announcement steps on node n0 about peers n1, n2
// (real nodeJoin, Hello, eventStreamHandler, nodeFail), then one publish through the
// real sendMessage.
func ZZ_C17_Membership() {
	K := zzrt.Param("K")
	servePeerEventStream = func(p *peer) {}
	f := zzNewFed("n0")
	nodes := []string{"n1", "n2"}
	member := map[string]bool{}
	type sub struct{ share, filter string }
	subs := map[string]map[sub]bool{"n1": {}, "n2": {}}
	menu := []sub{{"", "a"}, {"", "a/+"}, {"g1", "a"}, {"g1", "#"}}
	// what each node really holds (a failure n0 merely suspects does not change it), the
	// session id its peer object for n0 uses, and its event numbering
	real := map[string]map[sub]bool{"n1": {}, "n2": {}}
	sid := map[string]string{"n1": "s-n1", "n2": "s-n2"}
	gen := map[string]int{}
	next := map[string]uint64{}
	shook := map[string]bool{}
	// the history starts from a cluster in which n1 is a member, has shaken hands and has
	// announced one subscription (the steps then reach fail / rejoin / resync sooner)
	{
		f.nodeJoin(serf.MemberEvent{Type: serf.EventMemberJoin, Members: []serf.Member{{Name: "n1"}}})
		member["n1"] = true
		ctx := metadata.NewIncomingContext(context.Background(), metadata.Pairs("node_name", "n1"))
		resp, err := f.Hello(ctx, &ClientHello{SessionId: sid["n1"]})
		zzrt.Assert(err == nil && resp != nil && resp.CleanStart, "first-handshake-is-a-clean-start")
		s0 := menu[zzrt.Choice(2)]
		real["n1"][s0] = true
		f.eventStreamHandler(f.sessionMgr.get("n1"), &Event{Id: 0, Event: &Event_Subscribe{Subscribe: &Subscribe{ShareName: s0.share, TopicFilter: s0.filter}}})
		next["n1"] = 1
		shook["n1"] = true
	}
	for step := 0; step < K; step++ {
		n := nodes[zzrt.Choice(2)]
		ev := serf.MemberEvent{Members: []serf.Member{{Name: n}}}
		switch zzrt.Choice(3) {
		case 0:
			ev.Type = serf.EventMemberJoin
			f.nodeJoin(ev)
			member[n] = true
			zzrt.Assert(f.peers[n] != nil, "joined-node-becomes-a-peer")
		case 1:
			ev.Type = []serf.EventType{serf.EventMemberLeave, serf.EventMemberFailed, serf.EventMemberReap}[zzrt.Choice(3)]
			f.nodeFail(ev)
			if member[n] {
				zzrt.Cover("failed-with-state")
			}
			member[n] = false
			shook[n] = false
			if zzrt.Choice(2) == 1 {
				// the node really went away: it comes back empty, as a new process
				real[n] = map[sub]bool{}
				gen[n]++
				sid[n] = "s-" + n + "-" + string(rune('a'+gen[n]))
				next[n] = 0
			} else {
				zzrt.Cover("suspected-only")
			}
			zzrt.Assert(f.peers[n] == nil, "failed-node-is-no-longer-a-peer")
		case 2: // the node (if it is a member) connects and announces a subscription
			if !member[n] {
				continue
			}
			ctx := metadata.NewIncomingContext(context.Background(), metadata.Pairs("node_name", n))
			resp, err := f.Hello(ctx, &ClientHello{SessionId: sid[n]})
			zzrt.Assert(err == nil && resp != nil, "member-handshake-accepted")
			if resp.CleanStart {
				// the node starts its stream over and sends its whole state again
				next[n] = 0
				for s := range real[n] {
					f.eventStreamHandler(f.sessionMgr.get(n), &Event{Id: next[n], Event: &Event_Subscribe{Subscribe: &Subscribe{ShareName: s.share, TopicFilter: s.filter}}})
					next[n]++
				}
			}
			s := menu[zzrt.Choice(len(menu))]
			if !real[n][s] {
				real[n][s] = true
				f.eventStreamHandler(f.sessionMgr.get(n), &Event{Id: next[n], Event: &Event_Subscribe{Subscribe: &Subscribe{ShareName: s.share, TopicFilter: s.filter}}})
				next[n]++
			}
			shook[n] = true
		}
	}
	// what n0 must know: the real subscriptions of every member that has shaken hands
	// since it (re)joined; nothing about the others
	for _, n := range nodes {
		subs[n] = map[sub]bool{}
		if member[n] && shook[n] {
			for s := range real[n] {
				subs[n][s] = true
			}
		}
	}
	// the federation store knows exactly the live members' announced subscriptions
	stored := 0
	f.fedSubStore.Iterate(func(node string, s *gmqtt.Subscription) bool {
		stored++
		zzrt.Assert(member[node] && subs[node][sub{s.ShareName, s.TopicFilter}], "routing-table-holds-only-live-members-subscriptions")
		return true
	}, zzAllSubs())
	want := 0
	for _, n := range nodes {
		want += len(subs[n])
	}
	zzrt.Assert(stored == want, "routing-table-holds-every-live-subscription")

	topic := []string{"a", "a/b"}[zzrt.Choice(2)]
	f.fedSubStore.sharedSent["$share/g1/a"] = zzrt.Uint64()
	f.fedSubStore.sharedSent["$share/g1/#"] = zzrt.Uint64()
	before := map[string]int{}
	for _, n := range nodes {
		before[n] = zzMsgEvents(f.peers[n])
	}
	f.sendMessage(&gmqtt.Message{Topic: topic, Payload: []byte{1}})
	got := map[string]int{}
	for _, n := range nodes {
		got[n] = zzMsgEvents(f.peers[n]) - before[n]
		zzrt.Assert(got[n] <= 1, "at-most-one-event-per-peer")
	}
	for _, n := range nodes {
		nonShared, shared := false, false
		for s := range subs[n] {
			if zzref.MatchLevels(topic, s.filter) {
				if s.share == "" {
					nonShared = true
				} else {
					shared = true
				}
			}
		}
		if nonShared {
			zzrt.Assert(got[n] == 1, "live-node-with-matching-subscription-receives-it")
		}
		if !nonShared && !shared {
			zzrt.Assert(got[n] == 0, "node-without-matching-subscription-receives-nothing")
		}
	}
	// each share group (one per filter) with a live member is served by exactly one node
	// unless a member also receives the message for a non-shared subscription (KF-C17-2 territory: kept out by the menu when counting)
	for _, s := range menu {
		if s.share == "" || !zzref.MatchLevels(topic, s.filter) {
			continue
		}
		members, served := 0, 0
		for _, n := range nodes {
			if subs[n][s] {
				members++
				if got[n] == 1 {
					served++
				}
			}
		}
		if members > 0 {
			zzrt.Assert(served >= 1, "share-group-with-a-live-member-is-served")
			zzrt.Cover("group-routed")
		}
	}
	zzrt.Cover("membership-done")
}
