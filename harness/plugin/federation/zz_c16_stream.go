package federation

// C16 — the real stream loops: peer.initStream + stream.serve (readLoop, sendEvents)
// on the sending node, Federation.Hello + Federation.EventStream on the receiving
// node, joined by a message-granular lossy wire owned by the harness.

import (
	"context"
	"errors"
	"io"

	gmqtt "github.com/DrmagicE/gmqtt"
	"github.com/DrmagicE/gmqtt/zzrt"
	"github.com/hashicorp/serf/serf"
	"google.golang.org/grpc"
	"google.golang.org/grpc/metadata"
)

var zzErrBroken = errors.New("zz: transport is closing")

// zzWire is one gRPC stream: what either side sent and the other has not yet received.
type zzWire struct {
	toSrv  []*Event
	toCli  []*Ack
	srvIn  chan *Event
	cliIn  chan *Ack
	broken bool
	ctx    context.Context
}

type zzCliStream struct {
	grpc.ClientStream
	w *zzWire
}

func (s zzCliStream) Send(e *Event) error {
	if s.w.broken {
		return zzErrBroken
	}
	s.w.toSrv = append(s.w.toSrv, e)
	return nil
}
func (s zzCliStream) Recv() (*Ack, error) {
	a, ok := <-s.w.cliIn
	if !ok {
		return nil, zzErrBroken
	}
	return a, nil
}

type zzSrvStream struct {
	grpc.ServerStream
	w *zzWire
}

func (s zzSrvStream) Context() context.Context { return s.w.ctx }
func (s zzSrvStream) Send(a *Ack) error {
	if s.w.broken {
		return zzErrBroken
	}
	s.w.toCli = append(s.w.toCli, a)
	return nil
}
func (s zzSrvStream) Recv() (*Event, error) {
	e, ok := <-s.w.srvIn
	if !ok {
		return nil, io.EOF
	}
	return e, nil
}

// zzWireClient: Hello goes to the receiver's real Hello; EventStream opens a wire and
// starts the receiver's real EventStream handler on it.
type zzWireClient struct {
	srv *Federation
	cur *zzWire
	ret chan error
}

func (c *zzWireClient) Hello(ctx context.Context, in *ClientHello, opts ...grpc.CallOption) (*ServerHello, error) {
	md, _ := metadata.FromOutgoingContext(ctx)
	return c.srv.Hello(metadata.NewIncomingContext(context.Background(), md), in)
}
func (c *zzWireClient) EventStream(ctx context.Context, opts ...grpc.CallOption) (grpc.BidiStreamingClient[Event, Ack], error) {
	md, _ := metadata.FromOutgoingContext(ctx)
	w := &zzWire{srvIn: make(chan *Event), cliIn: make(chan *Ack), ctx: metadata.NewIncomingContext(context.Background(), md)}
	c.cur = w
	go func() { c.ret <- c.srv.EventStream(zzSrvStream{w: w}) }()
	return zzCliStream{w: w}, nil
}

// ZZ_C16_Stream: K scripted steps — a client publishes, a subscription appears or
// disappears, the wire delivers the next event, the wire delivers the next ack, the
// stream breaks (optionally the receiver has lost the session) and the peer
// re-handshakes — with the real loops running as goroutines between the steps.
func ZZ_C16_Stream() {
	K := zzrt.Param("K")
	servePeerEventStream = func(p *peer) {} // the harness drives the stream of a re-created peer itself
	A, B := zzNewFed("A"), zzNewFed("B")
	pub := B.publisher.(*zzPublisher)
	q := newEventQueue()
	pA := &peer{fed: A, localName: "A", member: serf.Member{Name: "B"}, exit: make(chan struct{}), sessionID: "s1", queue: q}
	A.peers["B"] = pA
	B.peers["A"] = &peer{fed: B, localName: "B", queue: newEventQueue()}
	client := &zzWireClient{srv: B, ret: make(chan error, 64)}
	served := make(chan error, 64)
	connect := func(label string) *zzWire {
		s, err := pA.initStream(client, zzConn())
		zzrt.Assert(err == nil, label)
		go func() { served <- s.serve() }()
		zzrt.Yield()
		return client.cur
	}
	cut := func(w *zzWire) {
		w.broken = true
		close(w.srvIn)
		close(w.cliIn)
		zzrt.Yield()
		zzrt.Assert(len(served) > 0 && len(client.ret) > 0, "both-ends-leave-a-broken-stream")
		<-served
		<-client.ret
	}
	w := connect("first-handshake")
	emitted, floor, restarts := 0, 0, 0
	subs := map[string]bool{}
	filters := []string{"a", "b/+"}
	check := func() {
		last := 0
		for _, m := range pub.got {
			tag := int(m.Payload[0])
			zzrt.Assert(tag > last, "message-events-applied-once-in-emission-order")
			if last >= floor && last != 0 {
				zzrt.Assert(tag == last+1, "no-event-skipped-while-the-session-lasts")
			}
			last = tag
		}
	}
	for step := 0; step < K; step++ {
		switch zzrt.Choice(5) {
		case 0:
			emitted++
			q.add(&Event{Event: &Event_Message{Message: messageToEvent(&gmqtt.Message{Topic: "t", Payload: []byte{byte(emitted)}})}})
		case 1:
			f := filters[zzrt.Choice(2)]
			if !subs[f] {
				subs[f] = true
				A.localSubStore.subscribe("c1", f)
				q.add(&Event{Event: &Event_Subscribe{Subscribe: &Subscribe{TopicFilter: f}}})
			} else {
				delete(subs, f)
				A.localSubStore.unsubscribe("c1", f)
				q.add(&Event{Event: &Event_Unsubscribe{Unsubscribe: &Unsubscribe{TopicName: f}}})
			}
		case 2:
			if len(w.toSrv) > 0 {
				ev := w.toSrv[0]
				w.toSrv = w.toSrv[1:]
				w.srvIn <- ev
				zzrt.Cover("event-delivered")
			}
		case 3:
			if len(w.toCli) > 0 {
				a := w.toCli[0]
				w.toCli = w.toCli[1:]
				w.cliIn <- a
				zzrt.Cover("ack-delivered")
			}
		case 4:
			if len(w.toSrv) > 0 {
				zzrt.Cover("cut-with-events-on-the-wire")
			}
			cut(w)
			switch zzrt.Choice(4) {
			case 3:
				// A's failure detector drops B and sees it again (real nodeFail / nodeJoin):
				// A starts over with a new peer, a new session and an empty queue, while B,
				// which noticed nothing, still holds the old session
				ev := serf.MemberEvent{Type: serf.EventMemberFailed, Members: []serf.Member{{Name: "B"}}}
				A.nodeFail(ev)
				ev.Type = serf.EventMemberJoin
				A.nodeJoin(ev)
				pA = A.peers["B"]
				zzrt.Assert(pA != nil, "rejoined-node-becomes-a-peer")
				q = pA.queue.(*eventQueue)
				floor = emitted
				zzrt.Cover("peer-recreated")
			case 1:
				B.sessionMgr.del("A")
				floor = emitted
				zzrt.Cover("session-lost")
			case 2:
				// the sending node was restarted: it says Hello with a new session id while
				// the receiver still holds the old session; both sides start over (the
				// receiver forgets A's state, the sender re-sends its whole state)
				restarts++
				pA.sessionID = "s" + string(rune('1'+restarts))
				floor = emitted
				zzrt.Cover("sender-restarted")
			}
			w = connect("re-handshake")
			zzrt.Cover("reconnected")
		}
		zzrt.Yield()
		check()
	}
	// stable: the wire delivers everything in both directions until nothing moves
	for round := 0; round < 2*K+6; round++ {
		for len(w.toSrv) > 0 {
			ev := w.toSrv[0]
			w.toSrv = w.toSrv[1:]
			w.srvIn <- ev
			zzrt.Yield()
		}
		for len(w.toCli) > 0 {
			a := w.toCli[0]
			w.toCli = w.toCli[1:]
			w.cliIn <- a
			zzrt.Yield()
		}
	}
	check()
	zzrt.Assert(len(w.toSrv) == 0 && len(w.toCli) == 0, "wire-drains-once-stable")
	// (an event whose acknowledgement was lost stays buffered until a later cumulative ack; it must not be one the receiver still lacks)
	if sess := B.sessionMgr.get("A"); sess != nil {
		for _, ev := range zzEventList(q) {
			zzrt.Assert(ev.Id < sess.nextEventID, "events-still-buffered-once-stable-were-applied")
		}
	}
	zzrt.Assert(q.nextRead == nil, "nothing-left-to-send-once-stable")
	last := 0
	for _, m := range pub.got {
		last = int(m.Payload[0])
	}
	zzrt.Assert(emitted == floor || last == emitted, "every-event-emitted-during-the-session-applied")
	n := 0
	B.fedSubStore.Iterate(func(node string, s *gmqtt.Subscription) bool {
		n++
		zzrt.Assert(node == "A" && subs[s.TopicFilter], "peer-view-contains-only-live-subscriptions")
		return true
	}, zzAllSubs())
	zzrt.Assert(n == len(subs), "peer-view-equals-local-subscription-set")
	zzrt.Observe("emitted", emitted)
	zzrt.Observe("applied", len(pub.got))
	// tear down so that no goroutine outlives the harness
	cut(w)
	B.sessionMgr.del("A")
	zzrt.Yield()
	zzrt.Cover("stream-done")
}
