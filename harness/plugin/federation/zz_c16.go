package federation

// C16 — federation event stream: ordered, at-least-once, applied once.
// C17 — routing (zz_c17.go) shares the scaffolding.

import (
	"container/list"
	"context"
	"sync"

	gmqtt "github.com/DrmagicE/gmqtt"
	submem "github.com/DrmagicE/gmqtt/persistence/subscription/mem"
	rettrie "github.com/DrmagicE/gmqtt/retained/trie"
	"github.com/DrmagicE/gmqtt/zzrt"
	"github.com/hashicorp/serf/serf"
	"go.uber.org/zap"
	"google.golang.org/grpc"
	"google.golang.org/grpc/metadata"
)

type zzPublisher struct{ got []*gmqtt.Message }

func (p *zzPublisher) Publish(m *gmqtt.Message) { p.got = append(p.got, m) }

func zzNewFed(name string) *Federation {
	if log == nil {
		log = zap.NewNop()
	}
	f := &Federation{
		nodeName:      name,
		sessionMgr:    &sessionMgr{sessions: map[string]*session{}},
		localSubStore: &localSubStore{},
		fedSubStore:   &fedSubStore{TrieDB: submem.NewStore(), sharedSent: map[string]uint64{}},
		retainedStore: rettrie.NewStore(),
		publisher:     &zzPublisher{},
		peers:         map[string]*peer{},
		exit:          make(chan struct{}),
		wg:            &sync.WaitGroup{},
	}
	f.localSubStore.init(submem.NewStore())
	return f
}

func zzEventList(q *eventQueue) []*Event {
	var out []*Event
	for e := q.l.Front(); e != nil; e = e.Next() {
		out = append(out, e.Value.(*Event))
	}
	return out
}

// ZZ_C16_QueueStep: one eventQueue operation from an arbitrary representable state:
// n events with contiguous ids b..b+n-1 (b symbolic, including values near 2^64), read
// cursor on element j or nil.
func ZZ_C16_QueueStep() {
	n := zzrt.Choice(zzrt.Param("N") + 1)
	b := zzrt.Uint64()
	zzrt.Assume(b <= ^uint64(0)-16)
	q := newEventQueue()
	var evs []*Event
	j := zzrt.Choice(n + 1) // cursor position; n = nil
	for i := 0; i < n; i++ {
		ev := &Event{Id: b + uint64(i)}
		evs = append(evs, ev)
		el := q.l.PushBack(ev)
		if i == j {
			q.nextRead = el
		}
	}
	q.nextID = b + uint64(n)
	zzrt.Observe("n", n)
	zzrt.Observe("j", j)
	switch zzrt.Choice(5) {
	case 0: // add
		ev := &Event{}
		q.add(ev)
		after := zzEventList(q)
		zzrt.Assert(len(after) == n+1 && after[n] == ev && ev.Id == b+uint64(n), "added-event-gets-next-id-at-the-tail")
		if j == n {
			zzrt.Assert(q.nextRead != nil && q.nextRead.Value.(*Event) == ev, "cursor-moves-to-new-event-when-it-was-at-the-end")
		} else {
			zzrt.Assert(q.nextRead.Value.(*Event) == evs[j], "cursor-unchanged-by-add")
		}
		zzrt.Cover("add")
	case 1: // fetchEvents
		if j == n {
			return // would wait
		}
		got := q.fetchEvents()
		zzrt.Assert(len(got) == n-j, "fetch-returns-everything-from-the-cursor")
		for i := range got {
			zzrt.Assert(got[i] == evs[j+i], "fetch-in-emission-order")
		}
		zzrt.Assert(q.nextRead == nil && q.l.Len() == n, "fetch-keeps-events-until-acknowledged")
		zzrt.Cover("fetch")
	case 2: // ack(x)
		x := zzrt.Uint64()
		q.ack(x)
		after := zzEventList(q)
		inRange := zzrt.ConcreteBool(zzrt.And(x >= b, x < b+uint64(n)))
		if inRange {
			k := int(x - b) // index of the acknowledged event
			k = zzrt.Concrete(k)
			zzrt.Assert(len(after) == n-k-1, "ack-removes-exactly-the-ids-up-to-it")
			for i := range after {
				zzrt.Assert(after[i] == evs[k+1+i], "ack-keeps-later-events-in-order")
			}
			zzrt.Cover("ack-hit")
		} else if zzrt.ConcreteBool(x < b) {
			zzrt.Assert(len(after) == n, "stale-ack-removes-nothing")
		} else {
			// an ack beyond the newest id cannot come from the peer; whatever happens must not reorder
			for i := 1; i < len(after); i++ {
				zzrt.Assert(after[i].Id == after[i-1].Id+1, "ids-stay-contiguous")
			}
		}
	case 3: // setReadPosition(x)
		x := zzrt.Uint64()
		q.setReadPosition(x)
		inRange := zzrt.ConcreteBool(zzrt.And(x >= b, x < b+uint64(n)))
		if inRange {
			k := zzrt.Concrete(int(x - b))
			zzrt.Assert(q.nextRead != nil && q.nextRead.Value.(*Event) == evs[k], "cursor-rewound-to-the-requested-event")
			zzrt.Cover("rewind")
		} else if j < n {
			zzrt.Assert(q.nextRead != nil && q.nextRead.Value.(*Event) == evs[j], "unknown-position-leaves-cursor")
		} else {
			zzrt.Assert(q.nextRead == nil, "unknown-position-leaves-cursor")
		}
		zzrt.Assert(q.l.Len() == n, "rewind-removes-nothing")
	case 4: // clear
		q.clear()
		zzrt.Assert(q.l.Len() == 0 && q.nextRead == nil && q.nextID == 0, "clear-resets")
	}
	// ids strictly increasing and contiguous in every case
	after := zzEventList(q)
	for i := 1; i < len(after); i++ {
		zzrt.Assert(after[i].Id == after[i-1].Id+1, "ids-stay-contiguous")
	}
	zzrt.Cover("step-done")
}

// ---- sender (node A) x receiver (node B) composition with a lossy transport ----

type zzFakeStream struct{ grpc.ClientStream }

func (zzFakeStream) Send(*Event) error   { return nil }
func (zzFakeStream) Recv() (*Ack, error) { return nil, nil }

// zzFakeClient routes the handshake to the real server-side Hello of the receiver.
type zzFakeClient struct{ srv *Federation }

func (c zzFakeClient) Hello(ctx context.Context, in *ClientHello, opts ...grpc.CallOption) (*ServerHello, error) {
	md, _ := metadata.FromOutgoingContext(ctx)
	return c.srv.Hello(metadata.NewIncomingContext(context.Background(), md), in)
}
func (c zzFakeClient) EventStream(ctx context.Context, opts ...grpc.CallOption) (grpc.BidiStreamingClient[Event, Ack], error) {
	return zzFakeStream{}, nil
}

// ZZ_C16_Session: K scripted steps (emit, fetch, deliver event, deliver ack, break the
// stream and re-handshake, receiver loses its session) against the real eventQueue,
// initStream handshake, sessionMgr, Hello and eventStreamHandler.
func ZZ_C16_Session() {
	K := zzrt.Param("K")
	A, B := zzNewFed("A"), zzNewFed("B")
	pub := B.publisher.(*zzPublisher)
	q := newEventQueue()
	pA := &peer{fed: A, localName: "A", member: serf.Member{Name: "B"}, exit: make(chan struct{}), sessionID: "s1", queue: q}
	A.peers["B"] = pA
	B.peers["A"] = &peer{fed: B, localName: "B", queue: newEventQueue()}
	client := zzFakeClient{B}
	_, err := pA.initStream(client, nil)
	zzrt.Assert(err == nil, "first-handshake")
	sess := B.sessionMgr.get("A")
	var inFlight []*Event // fetched, not yet delivered
	var acks []uint64     // produced, not yet delivered
	emitted := 0          // message events emitted (tags 1..emitted)
	floor := 0            // tags <= floor were emitted before the last session loss (may legitimately be gone)
	subs := map[string]bool{}
	filters := []string{"a", "b/+"}
	for step := 0; step < K; step++ {
		switch zzrt.Choice(6) {
		case 0: // a client publishes: message event
			emitted++
			q.add(&Event{Event: &Event_Message{Message: messageToEvent(&gmqtt.Message{Topic: "t", Payload: []byte{byte(emitted)}})}})
		case 1: // a local subscription appears / disappears
			f := filters[zzrt.Choice(2)]
			if !subs[f] {
				subs[f] = true
				A.localSubStore.subscribe("c1", f)
				q.add(&Event{Event: &Event_Subscribe{Subscribe: &Subscribe{TopicFilter: f}}})
			} else {
				delete(subs, f)
				A.localSubStore.unsubscribe("c1", f)
				q.add(&Event{Event: &Event_Unsubscribe{Unsubscribe: &Unsubscribe{TopicName: f}}})
			}
		case 2: // the send loop fetches a batch
			if q.nextRead != nil {
				inFlight = append(inFlight, q.fetchEvents()...)
			}
		case 3: // the transport delivers the next event to the receiver
			if len(inFlight) > 0 {
				ev := inFlight[0]
				inFlight = inFlight[1:]
				ack := B.eventStreamHandler(sess, ev)
				acks = append(acks, ack.EventId)
				sess.nextEventID = ack.EventId + 1
			}
		case 4: // the transport delivers the next acknowledgement to the sender
			if len(acks) > 0 {
				q.ack(acks[0])
				acks = acks[1:]
			}
		case 5: // the stream breaks; optionally the receiver has lost the session meanwhile
			inFlight, acks = nil, nil
			if zzrt.Choice(2) == 1 {
				B.sessionMgr.del("A")
				floor = emitted
				zzrt.Cover("session-lost")
			}
			_, err := pA.initStream(client, nil)
			zzrt.Assert(err == nil, "re-handshake")
			sess = B.sessionMgr.get("A")
			zzrt.Cover("reconnected")
		}
		// applied message events: no repeats, in emission order, no gaps within a session
		last := 0
		for _, m := range pub.got {
			tag := int(m.Payload[0])
			zzrt.Assert(tag > last, "message-events-applied-once-in-emission-order")
			if last >= floor && last != 0 {
				zzrt.Assert(tag == last+1, "no-event-skipped-while-the-session-lasts")
			}
			last = tag
		}
	}
	// let the stream be stable: everything is fetched, delivered and acknowledged
	for _, id := range acks {
		q.ack(id)
	}
	acks = nil
	for round := 0; round < K+3; round++ {
		if q.nextRead != nil {
			inFlight = append(inFlight, q.fetchEvents()...)
		}
		for _, ev := range inFlight {
			ack := B.eventStreamHandler(sess, ev)
			sess.nextEventID = ack.EventId + 1
			q.ack(ack.EventId)
		}
		inFlight = nil
	}
	// (events whose acknowledgement was lost stay buffered until a later ack; they are not resent)
	zzrt.Assert(q.nextRead == nil, "nothing-left-to-send-once-stable")
	last := 0
	for _, m := range pub.got {
		last = int(m.Payload[0])
	}
	zzrt.Assert(emitted == floor || last == emitted, "every-event-emitted-during-the-session-applied")
	// the peer's view of A's subscriptions equals A's local subscription set
	n := 0
	B.fedSubStore.Iterate(func(node string, s *gmqtt.Subscription) bool {
		n++
		zzrt.Assert(node == "A" && subs[s.TopicFilter], "peer-view-contains-only-live-subscriptions")
		return true
	}, zzAllSubs())
	zzrt.Assert(n == len(subs), "peer-view-equals-local-subscription-set")
	zzrt.Cover("session-done")
	_ = list.New
}
