package fifo

import (
	"github.com/DrmagicE/gmqtt/config"
	"github.com/DrmagicE/gmqtt/pkg/packets"
	"github.com/DrmagicE/gmqtt/zzrt"
)

// ZZ_C13_AliasOut: K outbound publishes through the real fifo alias manager, mirrored
// by a model of the receiving client's alias table (topic+alias => bind; alias only =>
// look up): every alias is within 1..max and every alias-only packet resolves to the
// message's real topic.
func ZZ_C13_AliasOut() {
	K := zzrt.Param("K")
	max := uint16(zzrt.Choice(zzrt.Param("A")) + 1)
	q := New(config.Config{}, max, "c1")
	topics := []string{"a", "b", "c", "d"}
	table := map[uint16]string{} // the client's view
	for i := 0; i < K; i++ {
		t := topics[zzrt.Choice(len(topics))]
		alias, exist := q.Check(&packets.Publish{TopicName: []byte(t)})
		zzrt.Assert(alias >= 1 && alias <= max, "alias-within-client-maximum")
		if exist {
			// broker sends alias only
			got, ok := table[alias]
			zzrt.Assert(ok && got == t, "alias-only-resolves-to-real-topic")
		} else {
			// broker sends topic + alias: client (re)binds
			table[alias] = t
		}
	}
	zzrt.Cover("done")
}
