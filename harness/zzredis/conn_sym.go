//go:build zzsym

package zzredis

// Symbolic-mode model of the redigo client: (*redis.Pool).Get returns a Conn bound to
// the Store registered for the pool; arguments are formatted as redigo's writeArg does
// (conn.go:438, v1.8.2) and replies are typed as redigo's readReply does (int64,
// []byte, nil, []interface{}, redis.Error, string for status lines).

import (
	"errors"

	redigo "github.com/gomodule/redigo/redis"

	"github.com/DrmagicE/gmqtt/zzrt"
)

// Crash is the panic value that unwinds the broker code when the server dies: the
// process is gone, nothing after the crash point may have an effect.
type Crash struct{}

var pools = map[*redigo.Pool]*Store{}

// symbolic integers returned as bulk strings: the digits are never materialised; the
// placeholder {'~', index} is resolved by the Scan / Int models.
var intTable []int64

// NewPool returns a pool whose connections talk to st.
func NewPool(st *Store) *redigo.Pool {
	p := &redigo.Pool{}
	pools[p] = st
	return p
}

// Get is the model of (*redis.Pool).Get.
func Get(p *redigo.Pool) redigo.Conn {
	st := pools[p]
	if st == nil {
		zzrt.Fail("model-pool-not-registered")
	}
	return &Conn{st: st}
}

// ClosePool is the model of (*redis.Pool).Close.
func ClosePool(p *redigo.Pool) error { return nil }

type pending struct {
	name string
	args []Val
}

type Conn struct {
	st      *Store
	queue   []pending // Send: buffered, not yet written
	replies []Reply   // written, reply not yet received
	closed  bool
}

func argVal(a interface{}) Val {
	switch x := a.(type) {
	case string:
		return Val{B: []byte(x)}
	case []byte:
		return Val{B: x}
	case int:
		return Int(int64(x))
	case int64:
		return Int(x)
	case bool:
		if x {
			return Str("1")
		}
		return Str("0")
	case nil:
		return Str("")
	// default clause of writeArg: fmt.Fprint(&buf, arg)
	case int8:
		return Int(int64(x))
	case int16:
		return Int(int64(x))
	case int32:
		return Int(int64(x))
	case uint8:
		return Int(int64(x))
	case uint16:
		return Int(int64(x))
	case uint32:
		return Int(int64(x))
	case uint:
		if x > 1<<62 {
			zzrt.Fail("model-redigo-arg-unsupported-uint")
		}
		return Int(int64(x))
	case uint64:
		if x > 1<<62 {
			zzrt.Fail("model-redigo-arg-unsupported-uint64")
		}
		return Int(int64(x))
	case []string:
		// fmt.Fprint of a []string: "[a b]"
		out := []byte{'['}
		for i, s := range x {
			if i > 0 {
				out = append(out, ' ')
			}
			out = append(out, s...)
		}
		return Val{B: append(out, ']')}
	}
	zzrt.Fail("model-redigo-arg-type-unsupported")
	return Val{}
}

func (c *Conn) apply(p pending) {
	r := c.st.Apply(p.name, p.args)
	if c.st.Crashed {
		panic(Crash{})
	}
	c.replies = append(c.replies, r)
}

func (c *Conn) Send(name string, args ...interface{}) error {
	if c.st.Crashed {
		panic(Crash{})
	}
	vals := make([]Val, 0, len(args))
	for _, a := range args {
		vals = append(vals, argVal(a))
	}
	c.queue = append(c.queue, pending{name, vals})
	return nil
}

func (c *Conn) Flush() error {
	if c.st.Crashed {
		panic(Crash{})
	}
	q := c.queue
	c.queue = nil
	for _, p := range q {
		c.apply(p)
	}
	return nil
}

func (c *Conn) Receive() (interface{}, error) {
	if len(c.replies) == 0 {
		zzrt.Fail("model-receive-without-pending-reply")
	}
	r := c.replies[0]
	c.replies = c.replies[1:]
	return goReply(r)
}

// Do as conn.DoWithTimeout (conn.go:682): write the command (if any), flush, read every
// pending reply.  Do("") returns the slice of pending replies; Do(cmd) returns the last
// reply and, as error, the first error reply among the pending ones and its own.
func (c *Conn) Do(name string, args ...interface{}) (interface{}, error) {
	if name == "" && len(c.queue) == 0 && len(c.replies) == 0 {
		return nil, nil
	}
	if name != "" {
		c.Send(name, args...)
	}
	c.Flush()
	n := len(c.replies)
	if name == "" {
		out := make([]interface{}, n)
		for i := 0; i < n; i++ {
			out[i], _ = goReply(c.replies[i])
		}
		c.replies = nil
		return out, nil
	}
	var last interface{}
	var err error
	for i := 0; i < n; i++ {
		last, _ = goReply(c.replies[i])
		if e, ok := last.(redigo.Error); ok && err == nil {
			err = e
		}
	}
	c.replies = nil
	return last, err
}

// Close: the pooled connection's Close runs Do("") first (pool.go activeConn.Close),
// which writes what Send buffered and drains the replies.
func (c *Conn) Close() error {
	if c.closed {
		return nil
	}
	c.closed = true
	if c.st.Crashed {
		return nil
	}
	q := c.queue
	c.queue = nil
	for _, p := range q {
		c.apply(p)
	}
	c.replies = nil
	return nil
}

func (c *Conn) Err() error { return nil }

func bulkBytes(v Val) []byte {
	if !v.IsInt {
		return v.B
	}
	if zzrt.IsConst(uint64(v.N)) {
		return fmtInt(v.N)
	}
	intTable = append(intTable, v.N)
	return []byte{'~', byte(len(intTable) - 1)}
}

// lookupInt resolves a bulk string produced by bulkBytes.
func lookupInt(b []byte) (int64, bool) {
	if len(b) == 2 && b[0] == '~' {
		return intTable[int(b[1])], true
	}
	return Val{B: b}.ParseInt()
}

func goReply(r Reply) (interface{}, error) {
	switch r.Kind {
	case RNil:
		return nil, nil
	case RInt:
		return r.N, nil
	case RBulk:
		return bulkBytes(r.B), nil
	case RStatus:
		return r.S, nil
	case RErr:
		return redigo.Error(r.S), nil
	case RArray:
		out := make([]interface{}, len(r.Arr))
		for i := range r.Arr {
			v, _ := goReply(r.Arr[i])
			out[i] = v
		}
		return out, nil
	}
	return nil, errors.New("model: bad reply kind")
}

// Scan is the model of redis.Scan for the destination types gmqtt uses (convertAssign,
// scan.go:227): nil source leaves the destination alone; a bulk string is copied to
// *string / *[]byte and parsed as an unsigned decimal of the destination's width for
// *uint32 / *uint16 / *uint64 (strconv.ParseUint: sign or out-of-range is an error).
func Scan(src []interface{}, dest ...interface{}) ([]interface{}, error) {
	if len(src) < len(dest) {
		return nil, errors.New("redigo.Scan: array short")
	}
	for i, d := range dest {
		switch s := src[i].(type) {
		case nil:
		case []byte:
			switch p := d.(type) {
			case *string:
				*p = string(s)
			case *[]byte:
				*p = s
			case *uint32:
				n, ok := lookupInt(s)
				if !ok || n < 0 || n > 0xFFFFFFFF {
					return src[len(dest):], errors.New("redigo.Scan: cannot assign to dest: value out of range")
				}
				*p = uint32(n)
			case *uint16:
				n, ok := lookupInt(s)
				if !ok || n < 0 || n > 0xFFFF {
					return src[len(dest):], errors.New("redigo.Scan: cannot assign to dest: value out of range")
				}
				*p = uint16(n)
			case *uint64:
				n, ok := lookupInt(s)
				if !ok || n < 0 {
					return src[len(dest):], errors.New("redigo.Scan: cannot assign to dest: value out of range")
				}
				*p = uint64(n)
			case *int64:
				n, ok := lookupInt(s)
				if !ok {
					return src[len(dest):], errors.New("redigo.Scan: cannot assign to dest: invalid syntax")
				}
				*p = n
			case *int:
				n, ok := lookupInt(s)
				if !ok {
					return src[len(dest):], errors.New("redigo.Scan: cannot assign to dest: invalid syntax")
				}
				*p = int(n)
			default:
				zzrt.Fail("model-redigo-scan-dest-unsupported")
			}
		case []interface{}:
			// convertAssignArray: a slice destination is filled element by element
			switch p := d.(type) {
			case *[]string:
				out := make([]string, 0, len(s))
				for _, e := range s {
					b, ok := e.([]byte)
					if !ok {
						return src[len(dest):], errors.New("redigo.Scan: cannot convert array element")
					}
					out = append(out, string(b))
				}
				*p = out
			case *[][]byte:
				out := make([][]byte, 0, len(s))
				for _, e := range s {
					b, ok := e.([]byte)
					if !ok {
						return src[len(dest):], errors.New("redigo.Scan: cannot convert array element")
					}
					out = append(out, b)
				}
				*p = out
			case *[]interface{}:
				*p = s
			default:
				zzrt.Fail("model-redigo-scan-dest-unsupported")
			}
		case redigo.Error:
			return src[len(dest):], s
		default:
			zzrt.Fail("model-redigo-scan-src-unsupported")
		}
	}
	return src[len(dest):], nil
}

// IntReply is the model of redis.Int.
func IntReply(reply interface{}, err error) (int, error) {
	if err != nil {
		return 0, err
	}
	switch r := reply.(type) {
	case int64:
		return int(r), nil
	case []byte:
		n, ok := lookupInt(r)
		if !ok {
			return 0, errors.New("strconv.ParseInt: invalid syntax")
		}
		return int(n), nil
	case nil:
		return 0, redigo.ErrNil
	case redigo.Error:
		return 0, r
	}
	return 0, errors.New("redigo: unexpected type for Int")
}
