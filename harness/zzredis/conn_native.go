//go:build !zzsym

package zzredis

// Native mode: the REAL redigo client (argument formatting, reply parsing, Scan, the
// pool) talks RESP to Store.Apply over an in-memory, synchronous connection.  Only the
// command semantics in store.go are shared with the symbolic model.

import (
	"errors"
	"net"
	"strconv"
	"time"

	redigo "github.com/gomodule/redigo/redis"
)

type Crash struct{}

type addr struct{}

func (addr) Network() string { return "zzredis" }
func (addr) String() string  { return "zzredis:0" }

// loopConn: Write feeds the RESP request parser and applies each complete command at
// once; Read returns the reply bytes produced so far.
type loopConn struct {
	st     *Store
	in     []byte
	out    []byte
	closed bool
}

func (c *loopConn) Read(p []byte) (int, error) {
	if len(c.out) == 0 {
		return 0, errors.New("zzredis: read with no reply pending")
	}
	n := copy(p, c.out)
	c.out = c.out[n:]
	return n, nil
}

func (c *loopConn) Write(p []byte) (int, error) {
	if c.closed {
		return 0, net.ErrClosed
	}
	c.in = append(c.in, p...)
	for {
		name, args, used, ok := parseCommand(c.in)
		if !ok {
			break
		}
		c.in = c.in[used:]
		vals := make([]Val, len(args))
		for i, a := range args {
			vals[i] = Val{B: a}
		}
		c.out = appendReply(c.out, c.st.Apply(name, vals))
	}
	return len(p), nil
}

func (c *loopConn) Close() error                       { c.closed = true; return nil }
func (c *loopConn) LocalAddr() net.Addr                { return addr{} }
func (c *loopConn) RemoteAddr() net.Addr               { return addr{} }
func (c *loopConn) SetDeadline(t time.Time) error      { return nil }
func (c *loopConn) SetReadDeadline(t time.Time) error  { return nil }
func (c *loopConn) SetWriteDeadline(t time.Time) error { return nil }

// parseCommand parses one "*N\r\n$len\r\n<bytes>\r\n..." request.
func parseCommand(b []byte) (name string, args [][]byte, used int, ok bool) {
	line := func(i int) (string, int, bool) {
		for j := i; j+1 < len(b); j++ {
			if b[j] == '\r' && b[j+1] == '\n' {
				return string(b[i:j]), j + 2, true
			}
		}
		return "", 0, false
	}
	if len(b) == 0 || b[0] != '*' {
		return
	}
	l, i, k := line(1)
	if !k {
		return
	}
	n, err := strconv.Atoi(l)
	if err != nil || n < 1 {
		panic("zzredis: bad request header")
	}
	var parts [][]byte
	for p := 0; p < n; p++ {
		if i >= len(b) {
			return
		}
		if b[i] != '$' {
			panic("zzredis: bad bulk header")
		}
		l, j, k := line(i + 1)
		if !k {
			return
		}
		sz, err := strconv.Atoi(l)
		if err != nil || sz < 0 {
			panic("zzredis: bad bulk length")
		}
		if j+sz+2 > len(b) {
			return
		}
		parts = append(parts, append([]byte{}, b[j:j+sz]...))
		i = j + sz + 2
	}
	return string(parts[0]), parts[1:], i, true
}

func appendReply(out []byte, r Reply) []byte {
	switch r.Kind {
	case RNil:
		return append(out, "$-1\r\n"...)
	case RInt:
		return append(append(append(out, ':'), strconv.FormatInt(r.N, 10)...), "\r\n"...)
	case RBulk:
		raw := r.B.Raw()
		out = append(append(append(out, '$'), strconv.Itoa(len(raw))...), "\r\n"...)
		return append(append(out, raw...), "\r\n"...)
	case RStatus:
		return append(append(append(out, '+'), r.S...), "\r\n"...)
	case RErr:
		return append(append(append(out, '-'), r.S...), "\r\n"...)
	case RArray:
		out = append(append(append(out, '*'), strconv.Itoa(len(r.Arr))...), "\r\n"...)
		for _, e := range r.Arr {
			out = appendReply(out, e)
		}
		return out
	}
	panic("zzredis: bad reply kind")
}

// crashConn panics with Crash{} as soon as the server has died, as the symbolic model
// does: the broker process is gone at that point.
type crashConn struct {
	redigo.Conn
	st *Store
}

func (c *crashConn) check() {
	if c.st.Crashed {
		panic(Crash{})
	}
}

func (c *crashConn) Do(cmd string, args ...interface{}) (interface{}, error) {
	if cmd == "" && c.st.Crashed {
		// the pooled connection's Close (Do("")) runs inside deferred functions of the
		// dying broker code: as in the symbolic model it must not panic again, or the
		// locks those functions release afterwards stay held
		return nil, nil
	}
	c.check()
	r, err := c.Conn.Do(cmd, args...)
	c.check()
	return r, err
}

func (c *crashConn) Send(cmd string, args ...interface{}) error {
	c.check()
	err := c.Conn.Send(cmd, args...)
	c.check()
	return err
}

func (c *crashConn) Flush() error {
	c.check()
	err := c.Conn.Flush()
	c.check()
	return err
}

// NewPool returns a real redigo pool whose connections reach st.
func NewPool(st *Store) *redigo.Pool {
	return &redigo.Pool{
		Dial: func() (redigo.Conn, error) {
			return &crashConn{Conn: redigo.NewConn(&loopConn{st: st}, 0, 0), st: st}, nil
		},
	}
}
