// Package zzredis is the stand-in for the redis server used by the C09 checks.
//
// store.go is shared by both modes: the command semantics of exactly the commands
// gmqtt issues (PING, DEL, HSET, HMGET, HGETALL, HDEL, SCAN..MATCH prefix*, LLEN,
// LRANGE, LREM, LSET, RPUSH), written from the Redis command reference.  In symbolic
// mode it is driven by a model of redigo's connection (conn_sym.go: argument
// formatting and reply typing transcribed from redigo v1.8.2); in native mode the real
// redigo client talks RESP to it over an in-memory connection (conn_native.go), so the
// witness replays compare the redigo model with the real redigo on every run.
//
// A crash is a counter: the store applies commands until Applied == CrashAt and then
// refuses everything (Crashed); what it holds at that moment is what the restarted
// broker finds.
package zzredis

import (
	"github.com/DrmagicE/gmqtt/zzrt"
)

// Val is a bulk string.  Integers written by the client are kept as numbers (IsInt)
// instead of their decimal digits so that a symbolic integer needs no symbolic
// formatting; the decimal form is canonical, so two IsInt values are equal as strings
// iff the numbers are equal.  In native mode every value is plain bytes.
type Val struct {
	IsInt bool
	N     int64
	B     []byte
}

func Str(s string) Val   { return Val{B: []byte(s)} }
func Int(n int64) Val    { return Val{IsInt: true, N: n} }
func Bytes(b []byte) Val { return Val{B: b} }

// fmtInt: canonical decimal digits of n (forks on the value when n is symbolic).
func fmtInt(n int64) []byte {
	if n == 0 {
		return []byte{'0'}
	}
	neg := n < 0
	var u uint64
	if neg {
		u = uint64(-n)
	} else {
		u = uint64(n)
	}
	var tmp [20]byte
	i := len(tmp)
	for u > 0 {
		i--
		tmp[i] = byte('0' + u%10)
		u /= 10
	}
	out := []byte{}
	if neg {
		out = append(out, '-')
	}
	return append(out, tmp[i:]...)
}

// Raw returns the bytes of a value (decimal digits for a number).
func (v Val) Raw() []byte {
	if v.IsInt {
		return fmtInt(v.N)
	}
	return v.B
}

// Eq: string equality of two bulk strings.
func Eq(a, b Val) bool {
	if a.IsInt && b.IsInt {
		return a.N == b.N
	}
	x, y := a.Raw(), b.Raw()
	if len(x) != len(y) {
		return false
	}
	return zzrt.ConcreteBool(zzrt.BytesEq(x, y))
}

// ParseInt: the integer value of an argument such as an index, count or cursor.
func (v Val) ParseInt() (int64, bool) {
	if v.IsInt {
		return v.N, true
	}
	b := v.B
	if len(b) == 0 {
		return 0, false
	}
	neg := false
	i := 0
	if b[0] == '-' {
		neg = true
		i = 1
		if len(b) == 1 {
			return 0, false
		}
	}
	var n int64
	for ; i < len(b); i++ {
		if b[i] < '0' || b[i] > '9' {
			return 0, false
		}
		n = n*10 + int64(b[i]-'0')
	}
	if neg {
		n = -n
	}
	return n, true
}

const (
	RNil = iota
	RInt
	RBulk
	RArray
	RStatus
	RErr
)

// Reply is a RESP reply.
type Reply struct {
	Kind int
	N    int64
	B    Val
	Arr  []Reply
	S    string
}

func rInt(n int64) Reply    { return Reply{Kind: RInt, N: n} }
func rErr(s string) Reply   { return Reply{Kind: RErr, S: s} }
func rOK() Reply            { return Reply{Kind: RStatus, S: "OK"} }
func rBulk(v Val) Reply     { return Reply{Kind: RBulk, B: v} }
func rArr(a []Reply) Reply  { return Reply{Kind: RArray, Arr: a} }
func rNil() Reply           { return Reply{Kind: RNil} }

const (
	kHash = 1
	kList = 2
)

type entry struct {
	key    string
	kind   int
	fields []Val // hash field names
	values []Val // hash values, or list items
}

// Store is the server state.
type Store struct {
	entries []*entry
	// Applied counts the commands applied so far (the command journal's length).
	Applied int
	// CrashAt: the server dies when Applied reaches it (-1: never).
	CrashAt int
	Crashed bool
	// Lazy: instead of a crash point fixed in advance, every command forks on "the
	// server dies before applying this command" (the same set of crash points, without
	// exploring crash points beyond the end of the history).
	Lazy bool
	// Journal records the command names applied (evidence / debugging only).
	Journal []string
	// ScanPage > 0: SCAN walks that many keys per call (in insertion order) and filters
	// them afterwards, as redis does with COUNT: a call can return no key at all together
	// with a non-zero cursor.  0: everything in one call.
	ScanPage int
}

func NewStore() *Store { return &Store{CrashAt: -1} }

// Survivor returns the state a restarted broker finds: the same data, a live server.
func (s *Store) Survivor() *Store {
	return &Store{entries: s.entries, CrashAt: -1, ScanPage: s.ScanPage}
}

func (s *Store) find(key string) (int, *entry) {
	for i, e := range s.entries {
		if e.key == key {
			return i, e
		}
	}
	return -1, nil
}

func (s *Store) drop(i int) {
	s.entries = append(append([]*entry{}, s.entries[:i]...), s.entries[i+1:]...)
}

func (s *Store) getOrCreate(key string, kind int) (*entry, bool) {
	_, e := s.find(key)
	if e == nil {
		e = &entry{key: key, kind: kind}
		s.entries = append(s.entries, e)
		return e, true
	}
	return e, e.kind == kind
}

const wrongType = "WRONGTYPE Operation against a key holding the wrong kind of value"

func lower(s string) string {
	b := []byte(s)
	for i, c := range b {
		if c >= 'A' && c <= 'Z' {
			b[i] = c + 32
		}
	}
	return string(b)
}

// Keys lists the keys present (harness oracle use).
func (s *Store) Keys() []string {
	var out []string
	for _, e := range s.entries {
		out = append(out, e.key)
	}
	return out
}

// ListLen / HashLen: oracle accessors that do not count as commands.
func (s *Store) ListLen(key string) int {
	_, e := s.find(key)
	if e == nil || e.kind != kList {
		return 0
	}
	return len(e.values)
}

func (s *Store) HashLen(key string) int {
	_, e := s.find(key)
	if e == nil || e.kind != kHash {
		return 0
	}
	return len(e.fields)
}

// HashHasInt: oracle accessor — does the hash hold a field whose name is the decimal
// form of n?  Not counted as a command.
func (s *Store) HashHasInt(key string, n int64) bool {
	_, e := s.find(key)
	if e == nil || e.kind != kHash {
		return false
	}
	for _, f := range e.fields {
		if Eq(f, Int(n)) {
			return true
		}
	}
	return false
}

// Apply executes one command.  name is case-insensitive as in redis.
func (s *Store) Apply(name string, args []Val) Reply {
	if s.Crashed {
		return rErr("ERR server is gone")
	}
	if s.CrashAt >= 0 && s.Applied >= s.CrashAt {
		s.Crashed = true
		return rErr("ERR server is gone")
	}
	if s.Lazy && zzrt.ConcreteBool(zzrt.Bool()) {
		s.Crashed = true
		s.CrashAt = s.Applied
		return rErr("ERR server is gone")
	}
	s.Applied++
	cmd := lower(name)
	s.Journal = append(s.Journal, cmd)
	switch cmd {
	case "ping":
		return Reply{Kind: RStatus, S: "PONG"}
	case "del":
		if len(args) < 1 {
			return rErr("ERR wrong number of arguments for 'del' command")
		}
		n := 0
		for _, a := range args {
			if i, _ := s.find(string(a.Raw())); i >= 0 {
				s.drop(i)
				n++
			}
		}
		return rInt(int64(n))
	case "hset":
		if len(args) < 3 || len(args)%2 != 1 {
			return rErr("ERR wrong number of arguments for 'hset' command")
		}
		e, ok := s.getOrCreate(string(args[0].Raw()), kHash)
		if !ok {
			return rErr(wrongType)
		}
		added := 0
		for i := 1; i+1 < len(args); i += 2 {
			found := false
			for j := range e.fields {
				if Eq(e.fields[j], args[i]) {
					e.values[j] = args[i+1]
					found = true
					break
				}
			}
			if !found {
				e.fields = append(e.fields, args[i])
				e.values = append(e.values, args[i+1])
				added++
			}
		}
		return rInt(int64(added))
	case "hmget":
		if len(args) < 2 {
			return rErr("ERR wrong number of arguments for 'hmget' command")
		}
		_, e := s.find(string(args[0].Raw()))
		if e != nil && e.kind != kHash {
			return rErr(wrongType)
		}
		out := make([]Reply, 0, len(args)-1)
		for _, f := range args[1:] {
			r := rNil()
			if e != nil {
				for j := range e.fields {
					if Eq(e.fields[j], f) {
						r = rBulk(e.values[j])
						break
					}
				}
			}
			out = append(out, r)
		}
		return rArr(out)
	case "hgetall":
		if len(args) != 1 {
			return rErr("ERR wrong number of arguments for 'hgetall' command")
		}
		_, e := s.find(string(args[0].Raw()))
		if e != nil && e.kind != kHash {
			return rErr(wrongType)
		}
		out := []Reply{}
		if e != nil {
			for j := range e.fields {
				out = append(out, rBulk(e.fields[j]), rBulk(e.values[j]))
			}
		}
		return rArr(out)
	case "hdel":
		if len(args) < 2 {
			return rErr("ERR wrong number of arguments for 'hdel' command")
		}
		i, e := s.find(string(args[0].Raw()))
		if e == nil {
			return rInt(0)
		}
		if e.kind != kHash {
			return rErr(wrongType)
		}
		n := 0
		for _, f := range args[1:] {
			for j := range e.fields {
				if Eq(e.fields[j], f) {
					e.fields = append(append([]Val{}, e.fields[:j]...), e.fields[j+1:]...)
					e.values = append(append([]Val{}, e.values[:j]...), e.values[j+1:]...)
					n++
					break
				}
			}
		}
		if len(e.fields) == 0 {
			s.drop(i)
		}
		return rInt(int64(n))
	case "scan":
		// SCAN cursor [MATCH pattern]: the model returns everything in one page, in
		// insertion order (one legal order), cursor "0".  Patterns: "prefix*" or literal.
		if len(args) < 1 {
			return rErr("ERR wrong number of arguments for 'scan' command")
		}
		if _, ok := args[0].ParseInt(); !ok {
			return rErr("ERR invalid cursor")
		}
		pat := "*"
		for i := 1; i+1 < len(args); i += 2 {
			if lower(string(args[i].Raw())) == "match" {
				pat = string(args[i+1].Raw())
			}
		}
		keys := []Reply{}
		cur, _ := args[0].ParseInt()
		from, to := 0, len(s.entries)
		next := int64(0)
		if s.ScanPage > 0 {
			from = int(cur)
			if from > len(s.entries) {
				from = len(s.entries)
			}
			to = from + s.ScanPage
			if to >= len(s.entries) {
				to = len(s.entries)
			} else {
				next = int64(to)
			}
		}
		for _, e := range s.entries[from:to] {
			if matchPattern(pat, e.key) {
				keys = append(keys, rBulk(Str(e.key)))
			}
		}
		return rArr([]Reply{rBulk(Val{B: fmtInt(next)}), rArr(keys)})
	case "llen":
		if len(args) != 1 {
			return rErr("ERR wrong number of arguments for 'llen' command")
		}
		_, e := s.find(string(args[0].Raw()))
		if e == nil {
			return rInt(0)
		}
		if e.kind != kList {
			return rErr(wrongType)
		}
		return rInt(int64(len(e.values)))
	case "rpush":
		if len(args) < 2 {
			return rErr("ERR wrong number of arguments for 'rpush' command")
		}
		e, ok := s.getOrCreate(string(args[0].Raw()), kList)
		if !ok {
			return rErr(wrongType)
		}
		e.values = append(e.values, args[1:]...)
		return rInt(int64(len(e.values)))
	case "lrange":
		if len(args) != 3 {
			return rErr("ERR wrong number of arguments for 'lrange' command")
		}
		start, ok1 := args[1].ParseInt()
		stop, ok2 := args[2].ParseInt()
		if !ok1 || !ok2 {
			return rErr("ERR value is not an integer or out of range")
		}
		_, e := s.find(string(args[0].Raw()))
		if e == nil {
			return rArr([]Reply{})
		}
		if e.kind != kList {
			return rErr(wrongType)
		}
		n := int64(len(e.values))
		if start < 0 {
			start += n
			if start < 0 {
				start = 0
			}
		}
		if stop < 0 {
			stop += n
		}
		if stop >= n {
			stop = n - 1
		}
		out := []Reply{}
		for i := start; i <= stop; i++ {
			out = append(out, rBulk(e.values[i]))
		}
		return rArr(out)
	case "lset":
		if len(args) != 3 {
			return rErr("ERR wrong number of arguments for 'lset' command")
		}
		idx, ok := args[1].ParseInt()
		if !ok {
			return rErr("ERR value is not an integer or out of range")
		}
		_, e := s.find(string(args[0].Raw()))
		if e == nil {
			return rErr("ERR no such key")
		}
		if e.kind != kList {
			return rErr(wrongType)
		}
		n := int64(len(e.values))
		if idx < 0 {
			idx += n
		}
		if idx < 0 || idx >= n {
			return rErr("ERR index out of range")
		}
		e.values[idx] = args[2]
		return rOK()
	case "lrem":
		if len(args) != 3 {
			return rErr("ERR wrong number of arguments for 'lrem' command")
		}
		count, ok := args[1].ParseInt()
		if !ok {
			return rErr("ERR value is not an integer or out of range")
		}
		i, e := s.find(string(args[0].Raw()))
		if e == nil {
			return rInt(0)
		}
		if e.kind != kList {
			return rErr(wrongType)
		}
		removed := int64(0)
		keep := make([]bool, len(e.values))
		for j := range keep {
			keep[j] = true
		}
		if count >= 0 {
			for j := 0; j < len(e.values); j++ {
				if count != 0 && removed >= count {
					break
				}
				if Eq(e.values[j], args[2]) {
					keep[j] = false
					removed++
				}
			}
		} else {
			for j := len(e.values) - 1; j >= 0; j-- {
				if removed >= -count {
					break
				}
				if Eq(e.values[j], args[2]) {
					keep[j] = false
					removed++
				}
			}
		}
		nv := []Val{}
		for j, v := range e.values {
			if keep[j] {
				nv = append(nv, v)
			}
		}
		e.values = nv
		if len(e.values) == 0 {
			s.drop(i)
		}
		return rInt(removed)
	}
	return rErr("ERR unknown command '" + name + "'")
}

// matchPattern: glob restricted to what gmqtt uses — a literal, optionally followed by
// one trailing '*'.
func matchPattern(pat, key string) bool {
	if len(pat) > 0 && pat[len(pat)-1] == '*' {
		p := pat[:len(pat)-1]
		return len(key) >= len(p) && key[:len(p)] == p
	}
	return pat == key
}
