package trie

// C07 — retained store: last value per topic; lookups by filter return exactly the
// kept messages whose topic matches (pool-symbolic topics, symbolic message fields).

import (
	gmqtt "github.com/DrmagicE/gmqtt"
	"github.com/DrmagicE/gmqtt/zzref"
	"github.com/DrmagicE/gmqtt/zzrt"
)

var zzTopicPools = [][]string{
	{"a", "a/b", "a/b/c", "b", "$s", "$s/a"},
	{"/", "/a", "a/", "a//b", "a", "a/b"},
}

var zzFilterPool = []string{"#", "+", "a", "a/#", "a/+", "+/b", "+/+", "a/+/c", "/#", "+/#", "$s/#", "$s/+", "a/b/#", "/", "a/", "a//b", "$s", "+/+/+", "/+", "b"}

func zzMsgEq(x, y *gmqtt.Message) bool {
	r := zzrt.And(x.QoS == y.QoS, x.Topic == y.Topic)
	r = zzrt.And(r, zzrt.BytesEq(x.Payload, y.Payload))
	return zzrt.And(r, x.Retained == y.Retained)
}

// ZZ_C07_StoreHistory: K AddOrReplace / Remove operations with a reference map.
func ZZ_C07_StoreHistory() {
	K := zzrt.Param("K")
	topics := zzTopicPools[zzrt.Param("POOL")]
	db := NewStore()
	ref := map[string]*gmqtt.Message{}
	for step := 0; step < K; step++ {
		t := topics[zzrt.Choice(len(topics))]
		if zzrt.Choice(2) == 0 {
			q := zzrt.Byte()
			zzrt.Assume(q <= 2)
			m := &gmqtt.Message{Topic: t, QoS: q, Retained: true, Payload: zzrt.Bytes(1)}
			db.AddOrReplace(m)
			ref[t] = m
		} else {
			db.Remove(t)
			delete(ref, t)
		}
	}
	// exact-topic lookup
	for _, t := range topics {
		got := db.GetRetainedMessage(t)
		if want := ref[t]; want != nil {
			zzrt.Assert(got != nil && zzMsgEq(got, want), "last-value-kept-per-topic")
			// returned messages are copies
			got.Payload[0] ^= 0xff
			again := db.GetRetainedMessage(t)
			zzrt.Assert(again != nil && zzMsgEq(again, want), "lookup-returns-copies")
		} else {
			zzrt.Assert(got == nil, "cleared-or-never-set-topic-has-no-message")
		}
	}
	// lookup by filter: exactly the kept messages whose topic matches, each once
	for _, f := range zzFilterPool {
		got := db.GetMatchedMessages(f)
		n := 0
		for _, t := range topics {
			want := ref[t]
			if want == nil || !zzref.MatchLevels(t, f) {
				continue
			}
			n++
			hits := 0
			for _, g := range got {
				if g.Topic == t {
					hits++
					zzrt.Assert(zzMsgEq(g, want), "filter-lookup-returns-last-value")
				}
			}
			zzrt.Assert(hits == 1, "filter-lookup-each-matching-message-once")
		}
		zzrt.Assert(len(got) == n, "filter-lookup-exact")
	}
	// iteration visits exactly the kept messages
	seen := 0
	db.Iterate(func(m *gmqtt.Message) bool {
		seen++
		zzrt.Assert(ref[m.Topic] != nil && zzMsgEq(m, ref[m.Topic]), "iterate-visits-kept-messages")
		return true
	})
	zzrt.Assert(seen == len(ref), "iterate-exact")
	zzrt.Cover("store-history-done")
}
