package gmqtt

// C06 — the reported message size equals the encoded PUBLISH length.

import (
	"bytes"

	"github.com/DrmagicE/gmqtt/pkg/packets"
	"github.com/DrmagicE/gmqtt/zzrt"
)

// ZZ_C06_Size: Message.TotalBytes(v) == len(Pack(MessageToPublish(m, v))) for messages
// whose component lengths make the property-length and remaining-length variable byte
// integers cross the 127/128 boundary.
func ZZ_C06_Size() {
	ver := packets.Version311
	if zzrt.Choice(2) == 1 {
		ver = packets.Version5
	}
	m := &Message{Topic: "tt"[:zzrt.Choice(2)+1], QoS: uint8(zzrt.Choice(3)), Retained: zzrt.Bool(), Dup: zzrt.Bool(), PacketID: zzrt.Uint16()}
	n := 0
	if zzrt.Choice(2) == 1 {
		n = zzrt.Concrete(zzrt.IntRange(zzrt.Param("LO"), zzrt.Param("HI")))
	}
	m.Payload = make([]byte, n)
	if ver == packets.Version5 {
		m.MessageExpiry = zzrt.Uint32()
		// property profiles: each property absent / empty / present, subscription
		// identifiers of every variable-byte-integer size class, user properties
		switch zzrt.Choice(10) {
		case 0:
		case 1:
			m.ContentType, m.PayloadFormat = "c", 1
		case 2:
			m.ResponseTopic = "r"
		case 3:
			m.CorrelationData = []byte("dd")
		case 4:
			m.CorrelationData = []byte{} // present but empty
		case 5:
			m.SubscriptionIdentifier = []uint32{1, 127, 128}
		case 6:
			m.SubscriptionIdentifier = []uint32{16383, 16384, 2097151}
		case 7:
			m.SubscriptionIdentifier = []uint32{2097152, 268435455}
		case 8:
			m.UserProperties = []packets.UserProperty{{K: []byte("k"), V: []byte("v")}, {K: []byte("k2"), V: []byte{}}}
		case 9:
			m.ContentType, m.ResponseTopic, m.CorrelationData, m.PayloadFormat = "ct", "rt", []byte("c"), 1
			m.SubscriptionIdentifier = []uint32{5}
			m.UserProperties = []packets.UserProperty{{K: []byte("k"), V: []byte("v")}}
		}
	}
	want := m.TotalBytes(ver)
	var buf bytes.Buffer
	err := MessageToPublish(m, ver).Pack(&buf)
	zzrt.Assert(err == nil, "message-encodes")
	zzrt.Observe("reported", want)
	zzrt.Observe("encoded", buf.Len())
	zzrt.Assert(uint32(buf.Len()) == want, "reported-message-size-equals-encoded-length")
	// and the encoding decodes to the same message
	rd := packets.NewReader(bytes.NewReader(buf.Bytes()))
	rd.SetVersion(ver)
	p, err := rd.ReadPacket()
	if zzrt.ConcreteBool(err == nil) {
		pub, ok := p.(*packets.Publish)
		zzrt.Assert(ok, "decodes-as-publish")
		back := MessageFromPublish(pub)
		zzrt.Assert(back.Topic == m.Topic && back.QoS == m.QoS && back.Retained == m.Retained && len(back.Payload) == n, "publish-round-trip-fields")
		if ver == packets.Version5 {
			zzrt.Assert(back.ContentType == m.ContentType && back.ResponseTopic == m.ResponseTopic && back.MessageExpiry == m.MessageExpiry && zzrt.BytesEq(back.CorrelationData, m.CorrelationData), "publish-round-trip-properties")
		}
		zzrt.Cover("decoded")
	}
	zzrt.Cover("sized")
}
