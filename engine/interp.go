package main

// Symbolic interpreter for go/ssa.  Structure follows x/tools/go/ssa/interp; the
// value domain is value.go.  One Interp per worker; per-path state is reset by
// resetPath.  Paths are explored by re-execution (explore.go): at every branch on
// a non-constant condition Interp.branch consults the decision prefix.

import (
	"os"
	"fmt"
	"go/constant"
	"go/token"
	"go/types"
	"sort"
	"strings"
	"sync"

	"golang.org/x/tools/go/ssa"
)

var profileSteps = os.Getenv("GOSYM_PROFILE") != ""

func (it *Interp) dumpProfile() {
	type kv struct {
		k string
		v int
	}
	var l []kv
	for k, v := range it.prof {
		l = append(l, kv{k, v})
	}
	sort.Slice(l, func(i, j int) bool { return l[i].v > l[j].v })
	fmt.Fprintf(os.Stderr, "PROFILE steps=%d decisions=%d\n", it.steps, it.depth)
	for i := 0; i < len(l) && i < 8; i++ {
		fmt.Fprintf(os.Stderr, "  %8d %s\n", l[i].v, l[i].k)
	}
}

type fnInfo struct {
	idx      map[ssa.Value]int
	nregs    int
	firstNon []int // per block index: index of first non-phi instruction
}

type Engine struct {
	prog      *ssa.Program
	cfg       *Config
	fnInfos   sync.Map // *ssa.Function -> *fnInfo
	rtErrStr  types.Type
	stubPkgs  []string
	methCache sync.Map
	funcsSeen sync.Map // string -> position (functions encoded)
	stats     SolverStats
	models    map[string]*ssa.Function
	skipInitPkgs map[string]bool
	zeroStubs    map[string]bool
	statsMu   sync.Mutex
}

type deferred struct {
	fn   Value
	args []Value
	pos  token.Pos
	tail *deferred
}

type frame struct {
	it        *Interp
	caller    *frame
	fn        *ssa.Function
	info      *fnInfo
	block     *ssa.BasicBlock
	prevBlock *ssa.BasicBlock
	env       []Value
	defers    *deferred
	result    Value
	panicking bool
	panicVal  any
	g         *G
	phitemps  []Value
}

// targetPanic is a Go-level panic of the interpreted program.
type targetPanic struct{ v Value }

// abort ends the current path for an engine-level reason (never visible to the
// interpreted program's recover).
type abort struct {
	kind string // "assume", "unwind", "unsupported", "kill", "blocked", "exit", "internal"
	msg  string
}

func (a *abort) Error() string { return a.kind + ": " + a.msg }

func (e *Engine) info(fn *ssa.Function) *fnInfo {
	if v, ok := e.fnInfos.Load(fn); ok {
		return v.(*fnInfo)
	}
	fi := &fnInfo{idx: map[ssa.Value]int{}}
	add := func(v ssa.Value) {
		fi.idx[v] = fi.nregs
		fi.nregs++
	}
	for _, p := range fn.Params {
		add(p)
	}
	for _, fv := range fn.FreeVars {
		add(fv)
	}
	for _, b := range fn.Blocks {
		first := len(b.Instrs)
		for i, ins := range b.Instrs {
			if _, ok := ins.(*ssa.Phi); !ok && first == len(b.Instrs) {
				first = i
			}
			if v, ok := ins.(ssa.Value); ok {
				add(v)
			}
		}
		fi.firstNon = append(fi.firstNon, first)
	}
	v, _ := e.fnInfos.LoadOrStore(fn, fi)
	if fn.Pkg != nil && strings.HasPrefix(fn.Pkg.Pkg.Path(), "github.com/DrmagicE/gmqtt") {
		pos := e.prog.Fset.Position(fn.Pos())
		e.funcsSeen.LoadOrStore(fn.String(), fmt.Sprintf("%s:%d", strings.TrimPrefix(pos.Filename, "/repo/"), pos.Line))
	}
	return v.(*fnInfo)
}

func (fr *frame) get(key ssa.Value) Value {
	switch key := key.(type) {
	case nil:
		return nil
	case *ssa.Function:
		return key
	case *ssa.Builtin:
		return key
	case *ssa.Const:
		return fr.it.constValue(key)
	case *ssa.Global:
		return fr.it.global(key)
	}
	if i, ok := fr.info.idx[key]; ok {
		v := fr.env[i]
		if v == nil {
			panic(fmt.Sprintf("get: unset register %s in %s", key.Name(), fr.fn))
		}
		return v
	}
	panic(fmt.Sprintf("get: no value for %T: %v in %s", key, key.Name(), fr.fn))
}

func (fr *frame) set(key ssa.Value, v Value) {
	fr.env[fr.info.idx[key]] = v
}

func (it *Interp) constValue(c *ssa.Const) Value {
	ctx := it.ctx
	if c.Value == nil {
		return ctx.zero(c.Type())
	}
	t := under(c.Type())
	if b, ok := t.(*types.Basic); ok {
		if w, signed, ok := intWidth(b); ok {
			if w == 0 {
				return ctx.Bool(constant.BoolVal(c.Value))
			}
			if signed {
				return ctx.BV(uint64(c.Int64()), w)
			}
			return ctx.BV(c.Uint64(), w)
		}
		switch {
		case b.Info()&types.IsFloat != 0:
			return c.Float64()
		case b.Info()&types.IsString != 0:
			if c.Value.Kind() == constant.String {
				return constant.StringVal(c.Value)
			}
			return string(rune(c.Int64()))
		case b.Info()&types.IsComplex != 0:
			return c.Complex128()
		}
	}
	if _, ok := t.(*types.TypeParam); ok {
		panic("const of type param")
	}
	panic(fmt.Sprintf("constValue: %v %v", c, c.Type()))
}

// global returns the address of a package-level variable, running the package's
// initialiser first (lazily, per path).
func (it *Interp) global(g *ssa.Global) *Value {
	if p, ok := it.globals[g]; ok {
		return p
	}
	it.ensureInit(g.Pkg)
	if p, ok := it.globals[g]; ok {
		return p
	}
	cell := it.ctx.zero(mustDeref(g.Type()))
	p := &cell
	it.globals[g] = p
	return p
}

func mustDeref(t types.Type) types.Type {
	if p, ok := under(t).(*types.Pointer); ok {
		return p.Elem()
	}
	panic("mustDeref: not a pointer: " + t.String())
}

func (it *Interp) ensureInit(pkg *ssa.Package) {
	if pkg == nil || it.initDone[pkg] {
		return
	}
	it.initDone[pkg] = true
	// allocate all globals first
	for _, m := range pkg.Members {
		if g, ok := m.(*ssa.Global); ok {
			if _, ok := it.globals[g]; !ok {
				cell := it.ctx.zero(mustDeref(g.Type()))
				it.globals[g] = &cell
			}
		}
	}
	if it.eng.skipInit(pkg.Pkg.Path()) {
		return
	}
	if init := pkg.Func("init"); init != nil && init.Blocks != nil {
		saved := it.inInit
		it.inInit++
		it.call(nil, token.NoPos, init, nil)
		it.inInit = saved
	}
}

// the package "init" function calls the init of every import first; we make those
// lazy by intercepting calls to other packages' init (see callSSA).

func (fr *frame) runDefer(d *deferred) {
	var ok bool
	defer func() {
		if !ok {
			r := recover()
			if a, isAbort := r.(*abort); isAbort {
				panic(a)
			}
			fr.panicking = true
			fr.panicVal = r
		}
	}()
	fr.it.call(fr, d.pos, d.fn, d.args)
	ok = true
}

func (fr *frame) runDefers() {
	for d := fr.defers; d != nil; d = d.tail {
		fr.runDefer(d)
	}
	fr.defers = nil
	if fr.panicking {
		panic(fr.panicVal)
	}
}

func (it *Interp) lookupMethod(typ types.Type, meth *types.Func) *ssa.Function {
	return it.eng.prog.LookupMethod(typ, meth.Pkg(), meth.Name())
}

// throw builds a Go runtime panic (runtime.Error-like) for the interpreted program.
func (it *Interp) throw(msg string) *targetPanic {
	if it.curFrame != nil {
		it.lastThrowAt = it.curFrame.fn.String()
	}
	return &targetPanic{Iface{it.eng.rtErrStr, msg}}
}

func (it *Interp) unsupported(msg string) *abort {
	where := ""
	n := 0
	for f := it.curFrame; f != nil && n < 12; f = f.caller {
		where += " < " + f.fn.String()
		n++
	}
	return &abort{"unsupported", msg + where}
}

func (it *Interp) visitInstr(fr *frame, instr ssa.Instruction) (ret bool, jumped bool) {
	it.steps++
	if profileSteps {
		if it.prof == nil {
			it.prof = map[string]int{}
		}
		it.prof[fr.fn.String()]++
		if it.steps%2000000 == 0 {
			it.dumpProfile()
		}
	}
	if it.steps > it.maxSteps {
		panic(&abort{"unwind", fmt.Sprintf("instruction budget %d exhausted in %s", it.maxSteps, fr.fn)})
	}
	switch instr := instr.(type) {
	case *ssa.DebugRef:
	case *ssa.UnOp:
		fr.set(instr, it.unop(instr, fr.get(instr.X)))
	case *ssa.BinOp:
		fr.set(instr, it.binop(instr.Op, instr.X.Type(), fr.get(instr.X), fr.get(instr.Y)))
	case *ssa.Call:
		fn, args := it.prepareCall(fr, &instr.Call)
		r := it.call(fr, instr.Pos(), fn, args)
		if r == nil {
			r = Tuple(nil)
		}
		fr.set(instr, r)
	case *ssa.ChangeInterface:
		fr.set(instr, fr.get(instr.X))
	case *ssa.ChangeType:
		fr.set(instr, fr.get(instr.X))
	case *ssa.Convert:
		fr.set(instr, it.conv(instr.Type(), instr.X.Type(), fr.get(instr.X)))
	case *ssa.SliceToArrayPointer:
		x := fr.get(instr.X).(Slice)
		n := int(under(mustDeref(instr.Type())).(*types.Array).Len())
		if len(x) < n {
			panic(it.throw("cannot convert slice to array pointer: length too short"))
		}
		if x == nil {
			fr.set(instr, (*Value)(nil))
		} else {
			// aliasing array view over the slice's cells
			var cell Value = Array(x[:n:n])
			fr.set(instr, &cell)
		}
	case *ssa.MakeInterface:
		fr.set(instr, Iface{t: instr.X.Type(), v: fr.get(instr.X)})
	case *ssa.Extract:
		fr.set(instr, fr.get(instr.Tuple).(Tuple)[instr.Index])
	case *ssa.Slice:
		fr.set(instr, it.slice(instr, fr.get(instr.X), fr.get(instr.Low), fr.get(instr.High), fr.get(instr.Max)))
	case *ssa.Return:
		switch len(instr.Results) {
		case 0:
		case 1:
			fr.result = fr.get(instr.Results[0])
		default:
			res := make(Tuple, len(instr.Results))
			for i, r := range instr.Results {
				res[i] = fr.get(r)
			}
			fr.result = res
		}
		fr.block = nil
		return true, false
	case *ssa.RunDefers:
		fr.runDefers()
	case *ssa.Panic:
		panic(&targetPanic{fr.get(instr.X)})
	case *ssa.Send:
		it.chanSend(fr.get(instr.Chan).(*Chan), fr.get(instr.X))
	case *ssa.Store:
		it.store(fr.get(instr.Addr), fr.get(instr.Val))
	case *ssa.If:
		succ := 1
		if it.branch(fr.get(instr.Cond).(*Term)) {
			succ = 0
		}
		fr.prevBlock, fr.block = fr.block, fr.block.Succs[succ]
		return false, true
	case *ssa.Jump:
		fr.prevBlock, fr.block = fr.block, fr.block.Succs[0]
		return false, true
	case *ssa.Defer:
		fn, args := it.prepareCall(fr, &instr.Call)
		defers := &fr.defers
		if instr.DeferStack != nil {
			if into := fr.get(instr.DeferStack); into != nil {
				defers = into.(**deferred)
			}
		}
		*defers = &deferred{fn: fn, args: args, pos: instr.Pos(), tail: *defers}
	case *ssa.Go:
		fn, args := it.prepareCall(fr, &instr.Call)
		it.spawn(fn, args, instr.Pos())
	case *ssa.MakeChan:
		n := it.concretizeInt(fr.get(instr.Size).(*Term), isSigned(instr.Size.Type()))
		fr.set(instr, &Chan{cap: int(n), elemT: under(instr.Type()).(*types.Chan).Elem(), id: it.nextChanID()})
	case *ssa.Alloc:
		v := it.ctx.zero(mustDeref(instr.Type()))
		fr.set(instr, &v)
	case *ssa.MakeSlice:
		lt, ct := fr.get(instr.Len).(*Term), fr.get(instr.Cap).(*Term)
		var ln, cp int64
		if !lt.IsConst() && lt == ct {
			// allocation whose size depends on symbolic input: remember the size term
			// (zzrt.AllocWithin) and, when it can exceed SymMakeCap, stand in a buffer of
			// SymMakeCap+1 cells (abstraction: sound as long as fewer than SymMakeCap+1
			// elements can ever be filled, which the harness bounds guarantee)
			c := it.ctx
			sz := c.Resize(lt, 64, isSigned(instr.Len.Type()))
			it.allocTerms = append(it.allocTerms, sz)
			capv := int64(it.eng.cfg.SymMakeCap)
			if it.branch(c.Ule(sz, c.BV(uint64(capv), 64))) {
				ln = it.concretizeInt(lt, isSigned(instr.Len.Type()))
			} else if v := it.modelValue(sz); v <= uint64(it.eng.cfg.MaxAlloc) && it.branch(c.Eq(sz, c.BV(v, 64))) {
				// the size has (or this fork fixes) one concrete value: allocate it exactly
				ln = int64(v)
			} else {
				ln = capv + 1
				it.pathNotes = append(it.pathNotes, "symbolic make size above SymMakeCap abstracted")
			}
			cp = ln
		} else {
			ln = it.concretizeInt(lt, isSigned(instr.Len.Type()))
			cp = it.concretizeInt(ct, isSigned(instr.Cap.Type()))
		}
		if ln < 0 || cp < ln {
			panic(it.throw("makeslice: len out of range"))
		}
		if cp > int64(it.eng.cfg.MaxAlloc) {
			it.bigAlloc(instr.Pos(), cp)
			panic(&abort{"unsupported", fmt.Sprintf("make([]T, %d) exceeds MaxAlloc", cp)})
		}
		tElt := under(instr.Type()).(*types.Slice).Elem()
		s := make(Slice, cp)
		z := it.ctx.zero(tElt)
		for i := range s {
			s[i] = copyVal(z)
		}
		fr.set(instr, s[:ln])
	case *ssa.MakeMap:
		fr.set(instr, newMap(under(instr.Type()).(*types.Map).Key()))
	case *ssa.Range:
		fr.set(instr, it.rangeIter(fr.get(instr.X), instr.X.Type()))
	case *ssa.Next:
		fr.set(instr, it.iterNext(fr.get(instr.Iter), instr))
	case *ssa.FieldAddr:
		p, ok := fr.get(instr.X).(*Value)
		if !ok {
			panic(it.unsupported("FieldAddr through symbolic-index pointer"))
		}
		if p == nil {
			panic(it.throw("invalid memory address or nil pointer dereference"))
		}
		st, isStruct := (*p).(Struct)
		if !isStruct {
			panic(it.unsupported(fmt.Sprintf("FieldAddr %s on cell holding %T", instr, *p)))
		}
		fr.set(instr, &st[instr.Field])
	case *ssa.Field:
		fr.set(instr, fr.get(instr.X).(Struct)[instr.Field])
	case *ssa.IndexAddr:
		fr.set(instr, it.indexAddr(fr.get(instr.X), fr.get(instr.Index).(*Term), instr))
	case *ssa.Index:
		fr.set(instr, it.index(fr.get(instr.X), fr.get(instr.Index).(*Term), instr))
	case *ssa.Lookup:
		fr.set(instr, it.lookup(instr, fr.get(instr.X), fr.get(instr.Index)))
	case *ssa.MapUpdate:
		it.mapSet(fr.get(instr.Map).(*Map), fr.get(instr.Key), copyVal(fr.get(instr.Value)))
	case *ssa.TypeAssert:
		fr.set(instr, it.typeAssert(instr, fr.get(instr.X).(Iface)))
	case *ssa.MakeClosure:
		bindings := make([]Value, len(instr.Bindings))
		for i, b := range instr.Bindings {
			bindings[i] = fr.get(b)
		}
		fr.set(instr, &Closure{instr.Fn.(*ssa.Function), bindings})
	case *ssa.Select:
		fr.set(instr, it.selectOp(fr, instr))
	case *ssa.MultiConvert:
		panic(it.unsupported("MultiConvert"))
	default:
		panic(it.unsupported(fmt.Sprintf("instruction %T", instr)))
	}
	return false, false
}

func (it *Interp) prepareCall(fr *frame, call *ssa.CallCommon) (fn Value, args []Value) {
	v := fr.get(call.Value)
	if call.Method == nil {
		fn = v
	} else {
		recv := v.(Iface)
		if recv.t == nil {
			panic(it.throw("invalid memory address or nil pointer dereference (method call on nil interface)"))
		}
		f := it.lookupMethod(recv.t, call.Method)
		if f == nil {
			panic(fmt.Sprintf("method set for dynamic type %v does not contain %s", recv.t, call.Method))
		}
		fn = f
		args = append(args, recv.v)
	}
	for _, arg := range call.Args {
		args = append(args, fr.get(arg))
	}
	return
}

func (it *Interp) call(caller *frame, pos token.Pos, fn Value, args []Value) Value {
	switch fn := fn.(type) {
	case *ssa.Function:
		if fn == nil {
			panic(it.throw("invalid memory address or nil pointer dereference (call of nil func)"))
		}
		return it.callSSA(caller, pos, fn, args, nil)
	case *Closure:
		return it.callSSA(caller, pos, fn.Fn, args, fn.Env)
	case *ssa.Builtin:
		return it.callBuiltin(caller, pos, fn, args)
	}
	panic(fmt.Sprintf("cannot call %T", fn))
}

func (it *Interp) callSSA(caller *frame, pos token.Pos, fn *ssa.Function, args []Value, env []Value) Value {
	if fn.Parent() == nil {
		name := fn.String()
		if m, ok := it.eng.models[name]; ok && (caller == nil || caller.fn != m) {
			it.noteStub("model:" + name + " -> " + m.Name())
			return it.callSSA(caller, pos, m, args, nil)
		}
		if it.eng.zeroStubs[name] {
			it.noteStub("zero:" + name)
			return it.zeroResults(fn.Signature)
		}
		if h, ok := intrinsics[name]; ok {
			it.noteStub(name)
			fr := &frame{it: it, caller: caller, fn: fn}
			return h(it, fr, args)
		}
		if fn.Pkg != nil {
			if fn.Name() == "init" && fn.Signature.Recv() == nil && it.inInit > 0 && (caller != nil && caller.fn.Name() == "init") {
				// lazy package initialisation: dependencies are initialised on first use
				return nil
			}
			if it.eng.isStubPkg(fn.Pkg.Pkg.Path()) {
				it.noteStub(fn.Pkg.Pkg.Path() + ".*")
				return it.zeroResults(fn.Signature)
			}
		}
		if fn.Blocks == nil {
			if fn.Pkg == nil && fn.Synthetic != "" {
				// e.g. wrapper without body
			}
			panic(it.unsupported("no code for function: " + name))
		}
	} else if fn.Pkg != nil && it.eng.isStubPkg(fn.Pkg.Pkg.Path()) {
		return it.zeroResults(fn.Signature)
	}
	if fn.Blocks == nil {
		// synthetic wrappers for stub packages' methods etc.
		if fn.Signature.Recv() != nil || fn.Synthetic != "" {
			if obj := fn.Object(); obj != nil && obj.Pkg() != nil && it.eng.isStubPkg(obj.Pkg().Path()) {
				return it.zeroResults(fn.Signature)
			}
		}
		panic(it.unsupported("no code for function: " + fn.String()))
	}
	if fn.TypeParams().Len() > 0 && len(fn.TypeArgs()) == 0 {
		panic(it.unsupported("uninstantiated generic " + fn.String()))
	}
	it.depthCalls++
	if it.depthCalls > 2000 {
		panic(&abort{"unwind", "call depth > 2000 in " + fn.String()})
	}
	defer func() { it.depthCalls-- }()

	info := it.eng.info(fn)
	fr := &frame{it: it, caller: caller, fn: fn, info: info, g: it.cur}
	fr.env = make([]Value, info.nregs)
	fr.block = fn.Blocks[0]
	for i, p := range fn.Params {
		fr.env[info.idx[p]] = args[i]
	}
	for i, fv := range fn.FreeVars {
		fr.env[info.idx[fv]] = env[i]
	}
	saved := it.curFrame
	it.curFrame = fr
	for fr.block != nil {
		it.runFrame(fr)
	}
	it.curFrame = saved
	return fr.result
}

func (it *Interp) zeroResults(sig *types.Signature) Value {
	switch sig.Results().Len() {
	case 0:
		return nil
	case 1:
		return it.ctx.zero(sig.Results().At(0).Type())
	}
	return it.ctx.zero(sig.Results())
}

func (it *Interp) runFrame(fr *frame) {
	defer func() {
		if fr.block == nil {
			return // normal return
		}
		r := recover()
		if a, ok := r.(*abort); ok {
			panic(a)
		}
		if _, ok := r.(*targetPanic); !ok {
			// interpreter bug or Go runtime error inside the interpreter
			panic(r)
		}
		fr.panicking = true
		fr.panicVal = r
		it.curFrame = fr
		fr.runDefers()
		// recovered
		fr.block = fr.fn.Recover
		if fr.block == nil {
			// no named results: return zero values
			fr.result = it.zeroResults(fr.fn.Signature)
		}
	}()
	for {
		blk := fr.block
		first := fr.info.firstNon[blk.Index]
		if first > 0 {
			predIndex := -1
			for i, p := range blk.Preds {
				if p == fr.prevBlock {
					predIndex = i
					break
				}
			}
			fr.phitemps = fr.phitemps[:0]
			for _, phi := range blk.Instrs[:first] {
				fr.phitemps = append(fr.phitemps, fr.get(phi.(*ssa.Phi).Edges[predIndex]))
			}
			for i, phi := range blk.Instrs[:first] {
				fr.set(phi.(*ssa.Phi), fr.phitemps[i])
			}
		}
		for _, instr := range blk.Instrs[first:] {
			ret, jumped := it.visitInstr(fr, instr)
			if ret {
				return
			}
			if jumped {
				break
			}
		}
	}
}

// doRecover implements recover().
func (it *Interp) doRecover(caller *frame) Value {
	if caller != nil && !caller.panicking && caller.caller != nil && caller.caller.panicking {
		p := caller.caller.panicVal
		if tp, ok := p.(*targetPanic); ok {
			caller.caller.panicking = false
			caller.caller.panicVal = nil
			return tp.v
		}
	}
	return Iface{}
}

// ---- memory ----

func (it *Interp) load(addr Value) Value {
	switch p := addr.(type) {
	case *Value:
		if p == nil {
			panic(it.throw("invalid memory address or nil pointer dereference"))
		}
		return copyVal(*p)
	case *SymRef:
		return it.symLoad(p)
	}
	panic(fmt.Sprintf("load: %T", addr))
}

func (it *Interp) store(addr Value, v Value) {
	switch p := addr.(type) {
	case *Value:
		if p == nil {
			panic(it.throw("invalid memory address or nil pointer dereference"))
		}
		*p = copyVal(v)
		return
	case *SymRef:
		it.symStore(p, v)
		return
	}
	panic(fmt.Sprintf("store: %T", addr))
}

// toArray builds an SMT array term equal to the current contents of cells.  Cells
// that already read select(B, i) from a common base B cost nothing.
func (it *Interp) toArray(cells []Value) *Term {
	c := it.ctx
	w := int(cells[0].(*Term).w)
	var base *Term
	// most cells after a symbolic store are select(B, i): take B from the first such cell
	for _, cv := range cells {
		t := cv.(*Term)
		if t.op == OpSelect && t.b.IsConst() {
			base = t.a
			break
		}
	}
	if base == nil {
		base = c.ConstArr(0, w)
	}
	arr := base
	for i, cv := range cells {
		t := cv.(*Term)
		if c.Select(base, c.BV(uint64(i), 64)) == t {
			continue
		}
		arr = c.Store(arr, c.BV(uint64(i), 64), t)
	}
	return arr
}

func (it *Interp) symLoad(p *SymRef) Value {
	c := it.ctx
	// constant tables (utf8.first, hex digits, ...): compress runs of equal entries into
	// range tests instead of one case per index
	if r := it.constTableLoad(p); r != nil {
		return r
	}
	if p.arr {
		return c.Select(it.toArray(p.cells), p.idx)
	}
	// bounds already established when the SymRef was created
	var r *Term
	for i := len(p.cells) - 1; i >= 0; i-- {
		cell := p.cells[i].(*Term)
		if r == nil {
			r = cell
		} else {
			r = c.Ite(c.Eq(p.idx, c.BV(uint64(i), 64)), cell, r)
		}
	}
	return r
}

func (it *Interp) constTableLoad(p *SymRef) *Term {
	c := it.ctx
	n := len(p.cells)
	if n < 8 {
		return nil
	}
	type run struct {
		hi int // last index of the run
		v  *Term
	}
	var runs []run
	for i, cv := range p.cells {
		t, ok := cv.(*Term)
		if !ok || !t.IsConst() {
			return nil
		}
		if len(runs) > 0 && runs[len(runs)-1].v == t {
			runs[len(runs)-1].hi = i
		} else {
			runs = append(runs, run{i, t})
		}
		if len(runs) > 64 {
			return nil
		}
	}
	// idx is known to be in range (bounds check done by the caller)
	r := runs[len(runs)-1].v
	for k := len(runs) - 2; k >= 0; k-- {
		r = c.Ite(c.Ule(p.idx, c.BV(uint64(runs[k].hi), 64)), runs[k].v, r)
	}
	return r
}

func (it *Interp) symStore(p *SymRef, v Value) {
	c := it.ctx
	nv := v.(*Term)
	if p.arr {
		arr := c.Store(it.toArray(p.cells), p.idx, nv)
		for i := range p.cells {
			p.cells[i] = c.Select(arr, c.BV(uint64(i), 64))
		}
		return
	}
	for i := range p.cells {
		old := p.cells[i].(*Term)
		p.cells[i] = c.Ite(c.Eq(p.idx, c.BV(uint64(i), 64)), nv, old)
	}
}

func (it *Interp) indexAddr(x Value, idx *Term, instr *ssa.IndexAddr) Value {
	var cells []Value
	switch x := x.(type) {
	case Slice:
		cells = x
	case *Value:
		if x == nil {
			panic(it.throw("invalid memory address or nil pointer dereference"))
		}
		cells = (*x).(Array)
	default:
		panic(fmt.Sprintf("IndexAddr on %T", x))
	}
	idx = it.idx64(idx, instr.Index.Type())
	if idx.IsConst() {
		i := int64(idx.k)
		if i < 0 || i >= int64(len(cells)) {
			panic(it.throw(fmt.Sprintf("index out of range [%d] with length %d", i, len(cells))))
		}
		return &cells[i]
	}
	it.boundsCheck(idx, len(cells))
	if len(cells) > 0 {
		if t, scalar := cells[0].(*Term); scalar && len(cells) > 1 {
			return &SymRef{cells: cells, idx: idx, arr: len(cells) > 64 && t.w > 0}
		}
	}
	// non-scalar cells: if the pointer is only loaded from and every cell holds the same
	// reference (typically all nil), the load needs no case split
	if len(cells) > 8 && readOnlyUse(instr) {
		if v, same := allSameRef(cells); same {
			tmp := v
			return &tmp
		}
	}
	i := it.concretizeInt(idx, true)
	return &cells[i]
}

func readOnlyUse(instr *ssa.IndexAddr) bool {
	refs := instr.Referrers()
	if refs == nil {
		return false
	}
	for _, r := range *refs {
		u, ok := r.(*ssa.UnOp)
		if !ok || u.Op != token.MUL {
			return false
		}
	}
	return true
}

// allSameRef reports whether all cells hold the identical reference-like value.
func allSameRef(cells []Value) (Value, bool) {
	first := cells[0]
	for _, c := range cells[1:] {
		switch f := first.(type) {
		case Slice:
			cs, ok := c.(Slice)
			if !ok || !(f == nil && cs == nil) {
				return nil, false
			}
		case *Value:
			cp, ok := c.(*Value)
			if !ok || cp != f {
				return nil, false
			}
		case string:
			cs, ok := c.(string)
			if !ok || cs != f {
				return nil, false
			}
		default:
			return nil, false
		}
	}
	return first, true
}

func (it *Interp) idx64(idx *Term, t types.Type) *Term {
	if idx.w == 64 {
		return idx
	}
	return it.ctx.Resize(idx, 64, isSigned(t))
}

// boundsCheck forks on 0 <= idx < n (idx is 64-bit, treated as signed int).
func (it *Interp) boundsCheck(idx *Term, n int) {
	c := it.ctx
	in := c.Ult(idx, c.BV(uint64(n), 64)) // unsigned compare handles negatives
	if !it.branch(in) {
		panic(it.throw(fmt.Sprintf("index out of range [symbolic] with length %d", n)))
	}
}

func (it *Interp) index(x Value, idx *Term, instr *ssa.Index) Value {
	c := it.ctx
	idx = it.idx64(idx, instr.Index.Type())
	switch x := x.(type) {
	case Array:
		if idx.IsConst() {
			i := int64(idx.k)
			if i < 0 || i >= int64(len(x)) {
				panic(it.throw("index out of range"))
			}
			return copyVal(x[i])
		}
		it.boundsCheck(idx, len(x))
		if len(x) > 0 {
			if t, scalar := x[0].(*Term); scalar {
				return it.symLoad(&SymRef{cells: x, idx: idx, arr: len(x) > 64 && t.w > 0})
			}
		}
		return copyVal(x[it.concretizeInt(idx, true)])
	case string, SymStr:
		n := strLen(x)
		if idx.IsConst() {
			i := int64(idx.k)
			if i < 0 || i >= int64(n) {
				panic(it.throw(fmt.Sprintf("index out of range [%d] with length %d", i, n)))
			}
			if s, ok := x.(string); ok {
				return c.BV(uint64(s[i]), 8)
			}
			return x.(SymStr).b[i]
		}
		it.boundsCheck(idx, n)
		b := c.strBytes(x)
		var r *Term
		for i := n - 1; i >= 0; i-- {
			if r == nil {
				r = b[i]
			} else {
				r = c.Ite(c.Eq(idx, c.BV(uint64(i), 64)), b[i], r)
			}
		}
		return r
	}
	panic(fmt.Sprintf("Index on %T", x))
}

func (it *Interp) lookup(instr *ssa.Lookup, x, key Value) Value {
	switch x := x.(type) {
	case *Map:
		v, ok := it.mapGet(x, key)
		if !ok {
			v = it.ctx.zero(under(instr.X.Type()).(*types.Map).Elem())
		} else {
			v = copyVal(v)
		}
		if instr.CommaOk {
			return Tuple{v, it.ctx.Bool(ok)}
		}
		return v
	case string, SymStr:
		// string index with CommaOk false handled by ssa.Index normally
		idx := it.idx64(key.(*Term), instr.Index.Type())
		return it.index(x, idx, &ssa.Index{X: instr.X, Index: instr.Index})
	}
	panic(fmt.Sprintf("lookup on %T", x))
}

func (it *Interp) slice(instr *ssa.Slice, x, lo, hi, max Value) Value {
	geti := func(v Value, def int64) int64 {
		if v == nil {
			return def
		}
		return it.concretizeInt(it.ctx.Resize(v.(*Term), 64, true), true)
	}
	switch x := x.(type) {
	case string, SymStr:
		n := int64(strLen(x))
		l, h := geti(lo, 0), geti(hi, n)
		if l < 0 || h < l || h > n {
			panic(it.throw(fmt.Sprintf("slice bounds out of range [%d:%d] with length %d", l, h, n)))
		}
		if s, ok := x.(string); ok {
			return s[l:h]
		}
		return mkStr(x.(SymStr).b[l:h])
	case Slice:
		n := int64(cap(x))
		l, h := geti(lo, 0), geti(hi, int64(len(x)))
		m := geti(max, n)
		if l < 0 || h < l || m < h || m > n {
			panic(it.throw(fmt.Sprintf("slice bounds out of range [%d:%d:%d] with capacity %d", l, h, m, n)))
		}
		if x == nil {
			return Slice(nil)
		}
		return x[l:h:m]
	case *Value:
		if x == nil {
			panic(it.throw("nil pointer dereference (slice of nil array pointer)"))
		}
		a := (*x).(Array)
		n := int64(len(a))
		l, h := geti(lo, 0), geti(hi, n)
		m := geti(max, n)
		if l < 0 || h < l || m < h || m > n {
			panic(it.throw("slice bounds out of range"))
		}
		return Slice(a)[l:h:m]
	}
	panic(fmt.Sprintf("slice of %T", x))
}

func (it *Interp) typeAssert(instr *ssa.TypeAssert, itf Iface) Value {
	var v Value
	ok := false
	if idst, isI := under(instr.AssertedType).(*types.Interface); isI {
		if itf.t != nil && it.implements(itf.t, idst) {
			v, ok = itf, true
		}
	} else if itf.t != nil && types.Identical(itf.t, instr.AssertedType) {
		v, ok = copyVal(itf.v), true
	}
	if !ok {
		if !instr.CommaOk {
			panic(it.throw(fmt.Sprintf("interface conversion: interface is %v, not %v", itf.t, instr.AssertedType)))
		}
		v = it.ctx.zero(instr.AssertedType)
	}
	if instr.CommaOk {
		return Tuple{v, it.ctx.Bool(ok)}
	}
	return v
}

type implKey struct {
	t types.Type
	i *types.Interface
}

func (it *Interp) implements(t types.Type, i *types.Interface) bool {
	// cheap per-worker cache keyed by pointer identity (types are canonical enough)
	k := implKey{t, i}
	if v, ok := it.implCache[k]; ok {
		return v
	}
	v := types.Implements(t, i)
	it.implCache[k] = v
	return v
}

// ---- range ----

func (it *Interp) rangeIter(x Value, t types.Type) Value {
	switch x := x.(type) {
	case *Map:
		mi := &mapIter{m: x}
		if x != nil {
			for i := range x.keys {
				if x.live[i] {
					mi.slots = append(mi.slots, i)
				}
			}
			if it.eng.cfg.MapOrder == "reverse" {
				for i, j := 0, len(mi.slots)-1; i < j; i, j = i+1, j-1 {
					mi.slots[i], mi.slots[j] = mi.slots[j], mi.slots[i]
				}
			} else if it.eng.cfg.MapOrder == "sorted" {
				// deterministic order by canonical key where concrete
				sort.SliceStable(mi.slots, func(a, b int) bool {
					var ka, kb strings.Builder
					concKey(x.keys[mi.slots[a]], &ka)
					concKey(x.keys[mi.slots[b]], &kb)
					return ka.String() < kb.String()
				})
			}
		}
		mt := under(t).(*types.Map)
		mi.keyT, mi.valT = mt.Key(), mt.Elem()
		return mi
	case string:
		return &strIter{s: x}
	case SymStr:
		panic(it.unsupported("range over string with symbolic bytes (use index loop)"))
	}
	panic(fmt.Sprintf("range over %T", x))
}

func (it *Interp) iterNext(iter Value, instr *ssa.Next) Value {
	c := it.ctx
	switch iter := iter.(type) {
	case *mapIter:
		for iter.pos < len(iter.slots) {
			s := iter.slots[iter.pos]
			iter.pos++
			if iter.m.live[s] {
				return Tuple{c.True, copyVal(iter.m.keys[s]), copyVal(iter.m.vals[s])}
			}
		}
		return Tuple{c.False, c.zero(iter.keyT), c.zero(iter.valT)}
	case *strIter:
		if iter.pos >= len(iter.s) {
			return Tuple{c.False, c.BV(0, 64), c.BV(0, 32)}
		}
		i := iter.pos
		var r rune
		var n int
		for j, rr := range iter.s[i:] {
			if j == 0 {
				r = rr
			} else {
				n = j
				break
			}
		}
		if n == 0 {
			n = len(iter.s) - i
		}
		iter.pos += n
		return Tuple{c.True, c.BV(uint64(i), 64), c.BV(uint64(r), 32)}
	}
	panic(fmt.Sprintf("next on %T", iter))
}
