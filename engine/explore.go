package main

// Path exploration by re-execution (depth-first over binary decisions), model-based
// branch pruning, assertion discharge, known-finding handling, work sharing.

import (
	"fmt"
	"go/types"
	"os"
	"runtime/debug"
	"sort"
	"strings"
	"sync"
	"sync/atomic"
	"time"

	"golang.org/x/tools/go/ssa"
)

type decision struct {
	take       bool
	val        uint64 // concretisation value (when the decision came from concretizeInt)
	altPending bool
	altModel   Model
	altUnknown bool
}

type Interp struct {
	eng    *Engine
	ctx    *Ctx
	solver *Portfolio
	hs     *HarnessRun

	// per-path state
	pc         []*Term
	trail      []decision
	prefixLen  int
	prefModel  Model
	depth      int
	model      Model // satisfies pc, or nil (unknown)
	noModel    bool  // UF present: model-based shortcuts disabled
	vars       []*Term
	nondetSeq  int
	nondetLog  []nondetRec
	observed   map[string]*Term
	obsOrder   []obsRec
	globals    map[*ssa.Global]*Value
	initDone   map[*ssa.Package]bool
	inInit     int
	steps      int
	maxSteps   int
	depthCalls int
	curFrame   *frame
	implCache  map[implKey]bool
	cellOwner  map[*Value]Slice
	unknownHit bool
	pathNotes  []string
	covers     map[string]bool
	asserted   map[string]int

	// goroutines
	gs       []*G
	cur      *G
	mainG    *G
	chanSeq  int
	pendingA *abort
	clock    *Term // current virtual time (ns), 64-bit
	clockSeq int
	timers   []*vtimer
	stubsHit map[string]bool
	allocTerms []*Term
	lastThrowAt string
	prof       map[string]int
	locks       map[*Value]*lockState
	condWaiters map[*Value][]*bool
}

type nondetRec struct {
	Kind string `json:"kind"`
	Name string `json:"name"`
	W    int    `json:"w"`
}

type obsRec struct {
	Label string
	V     Value
}

func (it *Interp) noteStub(name string) {
	it.stubsHit[name] = true
}

func (it *Interp) nextChanID() int { it.chanSeq++; return it.chanSeq }

func (it *Interp) bigAlloc(pos any, n int64) {}

func (it *Interp) resetPath(prefix []decision, model Model) {
	it.pc = it.pc[:0]
	it.trail = append(it.trail[:0], prefix...)
	it.prefixLen = len(prefix)
	it.prefModel = model
	it.depth = 0
	it.model = Model{}
	if len(prefix) > 0 {
		it.model = nil // set when the prefix is consumed
	}
	it.noModel = false
	it.vars = it.vars[:0]
	it.nondetSeq = 0
	it.nondetLog = it.nondetLog[:0]
	it.observed = map[string]*Term{}
	it.obsOrder = nil
	it.globals = map[*ssa.Global]*Value{}
	it.initDone = map[*ssa.Package]bool{}
	it.inInit = 0
	it.steps = 0
	it.depthCalls = 0
	it.curFrame = nil
	it.cellOwner = map[*Value]Slice{}
	it.unknownHit = false
	it.pathNotes = nil
	it.covers = map[string]bool{}
	it.gs = nil
	it.cur = nil
	it.chanSeq = 0
	it.pendingA = nil
	it.clock = nil
	it.clockSeq = 0
	it.timers = nil
	it.allocTerms = nil
	it.locks = nil
	it.condWaiters = nil
	it.ctx.NewEpoch()
}

func (it *Interp) addPC(t *Term) {
	it.pc = append(it.pc, t)
}

func (it *Interp) setModel(m Model) {
	it.model = m
	it.ctx.NewEpoch()
}

// modelValue returns t's value under a model of the path condition.
func (it *Interp) modelValue(t *Term) uint64 {
	if it.model == nil || it.noModel {
		res, m := it.solver.Check(it.pc, it.varsFor(), false)
		if res != Sat {
			if res == Unknown {
				it.unknownHit = true
				it.hs.noteUnknown("model query: " + it.solver.lastErr)
				panic(&abort{"unknown", "cannot obtain a model for the path condition"})
			}
			panic(&abort{"assume", "path condition became unsatisfiable"})
		}
		if it.noModel {
			it.ctx.NewEpoch()
			return it.ctx.Eval(t, m)
		}
		it.setModel(m)
	}
	return it.ctx.Eval(t, it.model)
}

func (it *Interp) varsFor() []*Term { return it.vars }

// branch decides a condition, forking when both sides are feasible.
func (it *Interp) branch(cond *Term) bool { return it.branchVal(cond, 0) }

func (it *Interp) branchVal(cond *Term, val uint64) bool {
	if cond.IsConst() {
		return cond.k == 1
	}
	c := it.ctx
	d := it.depth
	it.depth++
	if d < it.prefixLen {
		take := it.trail[d].take
		if take {
			it.addPC(cond)
		} else {
			it.addPC(c.Not(cond))
		}
		if d == it.prefixLen-1 {
			it.setModel(it.prefModel)
		}
		return take
	}
	if d >= it.eng.cfg.MaxDecisions {
		panic(&abort{"unwind", fmt.Sprintf("more than %d decisions on one path", it.eng.cfg.MaxDecisions)})
	}
	it.hs.transitions.Add(1)
	var take bool
	dec := decision{val: val}
	if it.model != nil && !it.noModel {
		take = c.Eval(cond, it.model) == 1
		other := cond
		if take {
			other = c.Not(cond)
		}
		res, m := it.solver.Check(append(it.pc, other), it.varsFor(), false)
		switch res {
		case Sat:
			dec.altPending, dec.altModel = true, m
		case Unknown:
			dec.altPending, dec.altUnknown = true, true
			it.hs.noteUnknown("feasibility: " + it.solver.lastErr)
		}
	} else {
		// no model: ask about both sides
		resT, mT := it.solver.Check(append(it.pc, cond), it.varsFor(), false)
		resF, mF := it.solver.Check(append(it.pc, c.Not(cond)), it.varsFor(), false)
		if resT == Unknown || resF == Unknown {
			it.hs.noteUnknown("feasibility: " + it.solver.lastErr)
		}
		switch {
		case resT != Unsat && resF != Unsat:
			take = true
			dec.altPending, dec.altModel, dec.altUnknown = true, mF, resF == Unknown
			if !it.noModel {
				it.model = mT
				it.ctx.NewEpoch()
			}
		case resT != Unsat:
			take = true
			if !it.noModel {
				it.model = mT
				it.ctx.NewEpoch()
			}
		case resF != Unsat:
			take = false
			if !it.noModel {
				it.model = mF
				it.ctx.NewEpoch()
			}
		default:
			panic(&abort{"assume", "both sides infeasible"})
		}
	}
	dec.take = take
	it.trail = append(it.trail, dec)
	if take {
		it.addPC(cond)
	} else {
		it.addPC(c.Not(cond))
	}
	return take
}

// branchFree decides cond (= "v == takeVal" for a variable v that is otherwise
// constrained only to a range containing altVal) without asking the solver: both
// sides are feasible by construction.
func (it *Interp) branchFree(cond *Term, varName string, takeVal, altVal uint64) bool {
	d := it.depth
	if d < it.prefixLen || it.model == nil || it.noModel {
		return it.branch(cond)
	}
	if d >= it.eng.cfg.MaxDecisions {
		panic(&abort{"unwind", fmt.Sprintf("more than %d decisions on one path", it.eng.cfg.MaxDecisions)})
	}
	it.depth++
	it.hs.transitions.Add(1)
	alt := make(Model, len(it.model)+1)
	for k, v := range it.model {
		alt[k] = v
	}
	alt[varName] = altVal
	it.model[varName] = takeVal
	it.ctx.NewEpoch()
	it.trail = append(it.trail, decision{take: true, altPending: true, altModel: alt})
	it.addPC(cond)
	return true
}

// assume adds a constraint; ends the path when it is infeasible.
func (it *Interp) assume(cond *Term) {
	if cond.IsConst() {
		if cond.k == 0 {
			panic(&abort{"assume", "assumption is false"})
		}
		return
	}
	if it.depth < it.prefixLen {
		// inside the forced prefix: known feasible
		it.addPC(cond)
		return
	}
	if it.model != nil && !it.noModel && it.ctx.Eval(cond, it.model) == 1 {
		it.addPC(cond)
		return
	}
	res, m := it.solver.Check(append(it.pc, cond), it.varsFor(), false)
	switch res {
	case Unsat:
		panic(&abort{"assume", "assumption infeasible"})
	case Unknown:
		it.hs.noteUnknown("assume: " + it.solver.lastErr)
		it.model = nil
	default:
		if !it.noModel {
			it.setModel(m)
		}
	}
	it.addPC(cond)
}

// ---- nondeterministic inputs ----

func (it *Interp) fresh(kind string, w int) *Term {
	name := fmt.Sprintf("n%d_%d", it.nondetSeq, w)
	it.nondetSeq++
	v := it.ctx.Var(name, w)
	it.vars = append(it.vars, v)
	it.nondetLog = append(it.nondetLog, nondetRec{kind, name, w})
	return v
}

// internal nondeterminism (select choice etc.): not part of the replay vector
func (it *Interp) freshInternal(tag string, w int) *Term {
	name := fmt.Sprintf("%s%d_%d", tag, it.nondetSeq, w)
	it.nondetSeq++
	v := it.ctx.Var(name, w)
	it.vars = append(it.vars, v)
	return v
}

// ---- assertions ----

type Violation struct {
	Label   string            `json:"label"`
	Harness string            `json:"harness"`
	Inputs  []uint64          `json:"inputs"`
	Log     []nondetRec       `json:"log"`
	Obs     map[string]string `json:"observed,omitempty"`
	Panic   string            `json:"panic,omitempty"`
	Known   string            `json:"known,omitempty"`
	Params  map[string]int    `json:"params,omitempty"`
	Replay  string            `json:"replay_file,omitempty"`
}

func (it *Interp) inputsFrom(m Model) []uint64 {
	in := make([]uint64, len(it.nondetLog))
	for i, r := range it.nondetLog {
		in[i] = m[r.Name]
	}
	return in
}

func (it *Interp) obsFrom(m Model) map[string]string {
	o := map[string]string{}
	it.ctx.NewEpoch()
	for k, t := range it.observed {
		o[k] = fmt.Sprint(it.ctx.Eval(t, m))
	}
	it.ctx.NewEpoch()
	return o
}

func (it *Interp) assert(cond *Term, label string) {
	c := it.ctx
	it.hs.assertions.Add(1)
	if cond.IsConst() && cond.k == 1 {
		it.hs.discharged.Add(1)
		return
	}
	neg := c.Not(cond)
	// known-finding predicates applicable to this label
	var known []*knownPred
	for _, kf := range it.hs.known {
		if kf.Label == label {
			if t := kf.compile(it); t != nil {
				known = append(known, &knownPred{kf, t})
			}
		}
	}
	q := append(append([]*Term{}, it.pc...), neg)
	for _, k := range known {
		q = append(q, c.Not(k.t))
	}
	res, m := it.solver.Check(q, it.varsFor(), true)
	switch res {
	case Sat:
		it.hs.addViolation(it, label, m, "")
	case Unknown:
		it.hs.noteUnknown("assertion " + label + ": " + it.solver.lastErr)
	case Unsat:
		if len(known) > 0 {
			// is the plain negation satisfiable (i.e. only inside known findings)?
			for _, k := range known {
				r2, m2 := it.solver.Check(append(append([]*Term{}, it.pc...), neg, k.t), it.varsFor(), true)
				if r2 == Sat {
					it.hs.addKnown(it, k.kf, label, m2)
				} else if r2 == Unknown {
					it.hs.noteUnknown("assertion(known) " + label + ": " + it.solver.lastErr)
				}
			}
		}
		it.hs.discharged.Add(1)
	}
	// continue under the assumption that the assertion holds
	if cond.IsConst() {
		panic(&abort{"assume", "assertion constant false; path ends"})
	}
	it.assume(cond)
}

type knownPred struct {
	kf *KnownFinding
	t  *Term
}

// ---- harness run bookkeeping (shared between workers; mutex-protected) ----

type HarnessRun struct {
	mu          sync.Mutex
	spec        *HarnessSpec
	fn          *ssa.Function
	known       []*KnownFinding
	paths       int
	pathsByEnd  map[string]int
	transitions atomic.Int64
	assertions  atomic.Int64
	discharged  atomic.Int64
	violations  []*Violation
	violByLabel map[string]int
	knownSeen   map[string]*Violation
	unknowns    []string
	errors      []string
	covers      map[string]int
	witnesses   []*Violation // sample complete paths (inputs) for witness replay
	notes       map[string]int
	stubs       map[string]bool
	start       time.Time
	deadline    time.Time
	timedOut    bool
}

func (h *HarnessRun) noteUnknown(s string) {
	h.mu.Lock()
	if len(h.unknowns) < 20 {
		h.unknowns = append(h.unknowns, s)
	} else {
		h.unknowns[19] = "... more"
	}
	h.mu.Unlock()
}

func (h *HarnessRun) noteError(s string) {
	h.mu.Lock()
	if len(h.errors) < 20 {
		h.errors = append(h.errors, s)
	}
	h.mu.Unlock()
}

func (h *HarnessRun) addViolation(it *Interp, label string, m Model, panicMsg string) {
	v := &Violation{Label: label, Harness: h.spec.Func, Inputs: it.inputsFrom(m), Log: append([]nondetRec{}, it.nondetLog...), Obs: it.obsFrom(m), Panic: panicMsg, Params: h.spec.Params}
	h.mu.Lock()
	defer h.mu.Unlock()
	h.violByLabel[label]++
	if h.violByLabel[label] <= 3 {
		h.violations = append(h.violations, v)
	}
}

func (h *HarnessRun) addKnown(it *Interp, kf *KnownFinding, label string, m Model) {
	v := &Violation{Label: label, Harness: h.spec.Func, Inputs: it.inputsFrom(m), Log: append([]nondetRec{}, it.nondetLog...), Obs: it.obsFrom(m), Known: kf.ID, Params: h.spec.Params}
	h.mu.Lock()
	defer h.mu.Unlock()
	if _, ok := h.knownSeen[kf.ID]; !ok {
		h.knownSeen[kf.ID] = v
	}
}

// ---- jobs / workers ----

type job struct {
	prefix []decision
	model  Model
}

type jobQueue struct {
	mu      sync.Mutex
	cond    *sync.Cond
	jobs    []*job
	active  int
	hungry  int
	stopped bool
}

func newJobQueue() *jobQueue {
	q := &jobQueue{}
	q.cond = sync.NewCond(&q.mu)
	return q
}

func (q *jobQueue) push(j *job) {
	q.mu.Lock()
	q.jobs = append(q.jobs, j)
	q.mu.Unlock()
	q.cond.Signal()
}

func (q *jobQueue) wantsWork() bool {
	q.mu.Lock()
	defer q.mu.Unlock()
	return q.hungry > 0 && len(q.jobs) < q.hungry
}

func (q *jobQueue) pop() *job {
	q.mu.Lock()
	defer q.mu.Unlock()
	for {
		if q.stopped {
			return nil
		}
		if n := len(q.jobs); n > 0 {
			j := q.jobs[n-1]
			q.jobs = q.jobs[:n-1]
			q.active++
			return j
		}
		if q.active == 0 {
			q.cond.Broadcast()
			return nil
		}
		q.hungry++
		q.cond.Wait()
		q.hungry--
	}
}

func (q *jobQueue) done() {
	q.mu.Lock()
	q.active--
	if q.active == 0 && len(q.jobs) == 0 {
		q.cond.Broadcast()
	}
	q.mu.Unlock()
}

func (q *jobQueue) stop() {
	q.mu.Lock()
	q.stopped = true
	q.mu.Unlock()
	q.cond.Broadcast()
}

// runHarness explores all paths of one harness with nworkers workers.
func (e *Engine) runHarness(hs *HarnessRun, nworkers int) {
	q := newJobQueue()
	q.push(&job{})
	var wg sync.WaitGroup
	statsCh := make(chan SolverStats, nworkers)
	for w := 0; w < nworkers; w++ {
		wg.Add(1)
		go func(wid int) {
			defer wg.Done()
			it := e.newInterp(hs)
			defer func() {
				it.solver.Close()
				statsCh <- it.solver.stats
			}()
			for {
				j := q.pop()
				if j == nil {
					return
				}
				it.runJob(q, j)
				q.done()
				if it.ctx.NumTerms() > e.cfg.MaxTermsPerCtx {
					// recycle context and solver to bound memory
					it.solver.Close()
					statsCh2 := it.solver.stats
					it.ctx = NewCtx()
					p, err := NewPortfolio(it.ctx, e.cfg.TimeoutMs, e.cfg.Crosscheck)
					if err != nil {
						hs.noteError("solver restart: " + err.Error())
						return
					}
					p.stats = statsCh2
					it.solver = p
				}
			}
		}(w)
	}
	wg.Wait()
	close(statsCh)
	for s := range statsCh {
		e.mergeStats(s)
	}
}

func (e *Engine) newInterp(hs *HarnessRun) *Interp {
	ctx := NewCtx()
	p, err := NewPortfolio(ctx, e.cfg.TimeoutMs, e.cfg.Crosscheck)
	if err != nil {
		fmt.Fprintln(os.Stderr, "cannot start solver:", err)
		os.Exit(2)
	}
	it := &Interp{eng: e, ctx: ctx, solver: p, hs: hs, maxSteps: e.cfg.MaxSteps, implCache: map[implKey]bool{}, stubsHit: map[string]bool{}}
	return it
}

func (it *Interp) runJob(q *jobQueue, j *job) {
	stack := append([]decision{}, j.prefix...)
	model := j.model
	base := len(j.prefix)
	for {
		if time.Now().After(it.hs.deadline) {
			it.hs.mu.Lock()
			it.hs.timedOut = true
			it.hs.mu.Unlock()
			q.stop()
			return
		}
		it.runPath(stack, model)
		stack = append(stack[:0], it.trail...)
		// donate shallow alternatives when others are idle
		if q.wantsWork() {
			for i := base; i < len(stack); i++ {
				if stack[i].altPending {
					np := append([]decision{}, stack[:i]...)
					np = append(np, decision{take: !stack[i].take, val: stack[i].val})
					q.push(&job{prefix: np, model: stack[i].altModel})
					stack[i].altPending = false
					stack[i].altModel = nil
					if !q.wantsWork() {
						break
					}
				}
			}
		}
		// backtrack
		for len(stack) > base && !stack[len(stack)-1].altPending {
			stack = stack[:len(stack)-1]
		}
		if len(stack) <= base {
			return
		}
		top := &stack[len(stack)-1]
		top.take = !top.take
		top.altPending = false
		model = top.altModel
		top.altModel = nil
		if top.altUnknown {
			model = nil
		}
	}
}

// runPath executes the harness once under the decision prefix.
func (it *Interp) runPath(prefix []decision, model Model) {
	it.resetPath(prefix, model)
	end := "ok"
	var endMsg string
	func() {
		defer func() {
			r := recover()
			if r == nil {
				return
			}
			switch r := r.(type) {
			case *abort:
				end, endMsg = r.kind, r.msg
			case *targetPanic:
				end = "panic"
				endMsg = it.panicString(r.v)
				if it.lastThrowAt != "" {
					endMsg += " (runtime panic raised in " + it.lastThrowAt + ")"
				}
			default:
				end = "internal"
				endMsg = fmt.Sprintf("%v\n%s", r, debug.Stack())
			}
		}()
		it.runMain()
	}()
	it.killGoroutines()
	hs := it.hs
	if end == "panic" {
		// an escaping Go panic is a violation unless the harness allows it
		if !hs.spec.AllowPanic {
			m := it.finalModel()
			if m != nil {
				label := "no-panic"
				it.handlePanicViolation(label, m, endMsg)
			}
		}
	}
	hs.mu.Lock()
	hs.paths++
	hs.pathsByEnd[end]++
	for k := range it.covers {
		hs.covers[k]++
	}
	for k := range it.stubsHit {
		hs.stubs[k] = true
	}
	switch end {
	case "unwind", "unsupported", "internal", "blocked", "gopanic", "selfdeadlock", "exit", "unknown":
		if len(hs.errors) < 20 {
			hs.errors = append(hs.errors, end+": "+endMsg)
		}
	}
	needWitness := end == "ok" && len(hs.witnesses) < hs.spec.Witnesses
	hs.mu.Unlock()
	if needWitness {
		if m := it.finalModel(); m != nil {
			v := &Violation{Label: "witness", Harness: hs.spec.Func, Inputs: it.inputsFrom(m), Log: append([]nondetRec{}, it.nondetLog...), Obs: it.obsValues(m), Params: hs.spec.Params}
			hs.mu.Lock()
			if len(hs.witnesses) < hs.spec.Witnesses {
				hs.witnesses = append(hs.witnesses, v)
			}
			hs.mu.Unlock()
		}
	}
}

func (it *Interp) handlePanicViolation(label string, m Model, msg string) {
	// known findings may cover panics too (label "no-panic")
	for _, kf := range it.hs.known {
		if kf.Label == label {
			if t := kf.compile(it); t != nil {
				it.ctx.NewEpoch()
				if it.ctx.Eval(t, m) == 1 {
					// try to find a panic on this path outside the known region
					res, m2 := it.solver.Check(append(append([]*Term{}, it.pc...), it.ctx.Not(t)), it.varsFor(), true)
					if res == Sat {
						it.hs.addViolation(it, label, m2, msg)
					} else {
						it.hs.addKnown(it, kf, label, m)
					}
					return
				}
			}
		}
	}
	it.hs.addViolation(it, label, m, msg)
}

// finalModel returns a model of the complete path condition.
func (it *Interp) finalModel() Model {
	if it.model != nil && !it.noModel {
		return it.model
	}
	res, m := it.solver.Check(it.pc, it.varsFor(), false)
	if res == Sat {
		return m
	}
	return nil
}

// obsValues evaluates every Observe()d scalar under m, in order (witness replay).
func (it *Interp) obsValues(m Model) map[string]string {
	o := map[string]string{}
	it.ctx.NewEpoch()
	hexOf := func(b []*Term) string {
		var sb strings.Builder
		sb.WriteString("x")
		for _, t := range b {
			fmt.Fprintf(&sb, "%02x", it.ctx.Eval(t, m)&0xff)
		}
		return sb.String()
	}
	for i, r := range it.obsOrder {
		key := fmt.Sprintf("%03d:%s", i, r.Label)
		switch v := r.V.(type) {
		case *Term:
			o[key] = fmt.Sprint(it.ctx.Eval(v, m))
		case string, SymStr:
			o[key] = hexOf(it.ctx.strBytes(v))
		case Slice:
			b := make([]*Term, 0, len(v))
			ok := true
			for _, x := range v {
				t, isT := x.(*Term)
				if !isT || t.w != 8 {
					ok = false
					break
				}
				b = append(b, t)
			}
			if ok {
				o[key] = hexOf(b)
			} else {
				o[key] = "?[]"
			}
		default:
			o[key] = fmt.Sprintf("?%T", v)
		}
	}
	it.ctx.NewEpoch()
	return o
}

func (it *Interp) panicString(v Value) string {
	switch v := v.(type) {
	case Iface:
		if v.t == nil {
			return "nil"
		}
		switch x := v.v.(type) {
		case string:
			return x
		case *Term:
			return x.String()
		case *Value:
			// error implementations: try well-known shapes (errors.errorString{ s string })
			if x != nil {
				if st, ok := (*x).(Struct); ok && len(st) > 0 {
					if s, ok := st[0].(string); ok {
						return s
					}
				}
			}
		}
		return fmt.Sprintf("%v value", v.t)
	case string:
		return v
	}
	return fmt.Sprintf("%T", v)
}

// ---- known findings ----

type KnownFinding struct {
	ID       string `json:"id"`
	Property string `json:"property"`
	Harness  string `json:"harness"`
	Label    string `json:"label"`
	When     string `json:"when"` // predicate over observed names; "" = whole label
	What     string `json:"what"`
	Status   string `json:"status"` // "open" or "fixed"
	Commit   string `json:"commit,omitempty"`
}

func (kf *KnownFinding) compile(it *Interp) *Term {
	if strings.TrimSpace(kf.When) == "" {
		return it.ctx.True
	}
	t, err := parsePred(it, kf.When)
	if err != nil {
		return nil
	}
	return t
}

// ---- misc ----

func (e *Engine) mergeStats(s SolverStats) {
	e.statsMu.Lock()
	defer e.statsMu.Unlock()
	e.stats.Queries += s.Queries
	e.stats.Sat += s.Sat
	e.stats.Unsat += s.Unsat
	e.stats.Unknown += s.Unknown
	e.stats.Disagree += s.Disagree
	if e.stats.TimeS == nil {
		e.stats.TimeS = map[string]float64{}
		e.stats.PerBack = map[string]int{}
	}
	for k, v := range s.TimeS {
		e.stats.TimeS[k] += v
	}
	for k, v := range s.PerBack {
		e.stats.PerBack[k] += v
	}
}

func sortedKeys[V any](m map[string]V) []string {
	ks := make([]string, 0, len(m))
	for k := range m {
		ks = append(ks, k)
	}
	sort.Strings(ks)
	return ks
}

var _ = types.Typ
