package main

// Intrinsics: functions replaced by engine code.  Every replacement is part of the
// claim; the names that were hit on a run are listed in the evidence ("stubs").

import (
	"fmt"
	"go/token"
	"go/types"
	"strconv"
	"strings"

	"golang.org/x/tools/go/ssa"
)

type intrinsic func(it *Interp, fr *frame, args []Value) Value

var intrinsics map[string]intrinsic

const zz = "github.com/DrmagicE/gmqtt/zzrt."

func (e *Engine) isStubPkg(path string) bool {
	for _, p := range e.stubPkgs {
		if path == p || strings.HasPrefix(path, p+"/") {
			return true
		}
	}
	return false
}

func (e *Engine) skipInit(path string) bool {
	if e.isStubPkg(path) || e.skipInitPkgs[path] {
		return true
	}
	switch path {
	case "crypto/fips140", "crypto/internal/fips140", "crypto/internal/fips140only", "crypto/internal/fips140/check", "crypto/internal/fips140deps/godebug", "crypto/internal/boring", "crypto/internal/boring/sig", "internal/cpu0", "crypto/internal/impl", "crypto/internal/fips140deps/cpu":
		return true
	case "runtime", "os", "syscall", "internal/poll", "internal/godebug", "internal/cpu", "reflect", "net", "crypto/rand", "internal/syscall/unix", "time", "sync", "internal/sync", "unsafe", "sync/atomic", "log", "testing", "internal/reflectlite", "math/rand", "math/rand/v2", "internal/bisect", "internal/testlog", "internal/oserror", "io/fs", "path/filepath":
		return true
	}
	return false
}

func termArg(v Value) *Term { return v.(*Term) }

func (it *Interp) goString(v Value, what string) string {
	switch s := v.(type) {
	case string:
		return s
	case SymStr:
		// concretise byte by byte
		b := make([]byte, len(s.b))
		for i, t := range s.b {
			b[i] = byte(it.concretizeInt(t, false))
		}
		return string(b)
	}
	panic(it.unsupported(what + ": not a string"))
}

func (it *Interp) callMethodByName(recv Iface, name string, args ...Value) Value {
	if recv.t == nil {
		panic(it.throw("nil interface method call " + name))
	}
	ms := it.eng.prog.MethodSets.MethodSet(recv.t)
	for i := 0; i < ms.Len(); i++ {
		sel := ms.At(i)
		if sel.Obj().Name() == name {
			fn := it.eng.prog.MethodValue(sel)
			return it.call(it.curFrame, token.NoPos, fn, append([]Value{recv.v}, args...))
		}
	}
	panic(it.unsupported("method " + name + " not found on " + recv.t.String()))
}

func (it *Interp) hasMethod(t types.Type, name string) bool {
	ms := it.eng.prog.MethodSets.MethodSet(t)
	for i := 0; i < ms.Len(); i++ {
		if ms.At(i).Obj().Name() == name {
			return true
		}
	}
	return false
}

// errorNew builds an error value through the real errors.New.
func (it *Interp) errorNew(msg string) Value {
	pkg := it.eng.prog.ImportedPackage("errors")
	return it.call(it.curFrame, token.NoPos, pkg.Func("New"), []Value{msg})
}

type lockState struct {
	held    bool
	owner   *G
	readers int
}

func (it *Interp) lockOf(p Value) *lockState {
	pv := p.(*Value)
	if pv == nil {
		panic(it.throw("nil pointer dereference (nil mutex)"))
	}
	if it.locks == nil {
		it.locks = map[*Value]*lockState{}
	}
	ls, ok := it.locks[pv]
	if !ok {
		ls = &lockState{}
		it.locks[pv] = ls
	}
	return ls
}

func init() {
	intrinsics = map[string]intrinsic{
		// ---------- harness runtime ----------
		zz + "Bool":   func(it *Interp, fr *frame, a []Value) Value { return it.fresh("bool", 0) },
		zz + "Byte":   func(it *Interp, fr *frame, a []Value) Value { return it.fresh("u8", 8) },
		zz + "Uint16": func(it *Interp, fr *frame, a []Value) Value { return it.fresh("u16", 16) },
		zz + "Uint32": func(it *Interp, fr *frame, a []Value) Value { return it.fresh("u32", 32) },
		zz + "Uint64": func(it *Interp, fr *frame, a []Value) Value { return it.fresh("u64", 64) },
		zz + "Int64":  func(it *Interp, fr *frame, a []Value) Value { return it.fresh("i64", 64) },
		zz + "Int":    func(it *Interp, fr *frame, a []Value) Value { return it.fresh("i64", 64) },
		zz + "Int32":  func(it *Interp, fr *frame, a []Value) Value { return it.fresh("i32", 32) },
		zz + "IntRange": func(it *Interp, fr *frame, a []Value) Value {
			c := it.ctx
			v := it.fresh("i64", 64)
			it.assume(c.Sle(termArg(a[0]), v))
			it.assume(c.Sle(v, termArg(a[1])))
			return v
		},
		zz + "Choice": func(it *Interp, fr *frame, a []Value) Value {
			c := it.ctx
			n := it.concretizeInt(termArg(a[0]), true)
			if n <= 0 {
				panic(&abort{"assume", "Choice(0)"})
			}
			v := it.fresh("i64", 64)
			it.assume(c.Ult(v, c.BV(uint64(n), 64)))
			// n-way fork; every alternative is feasible by construction (no solver call)
			for i := int64(0); i < n-1; i++ {
				if it.branchFree(c.Eq(v, c.BV(uint64(i), 64)), v.name, uint64(i), uint64(i+1)) {
					return c.BV(uint64(i), 64)
				}
			}
			last := c.Eq(v, c.BV(uint64(n-1), 64))
			if it.depth >= it.prefixLen && it.model != nil && !it.noModel {
				it.model[v.name] = uint64(n - 1)
				it.ctx.NewEpoch()
				it.addPC(last)
			} else {
				it.assume(last)
			}
			return c.BV(uint64(n-1), 64)
		},
		zz + "Concrete": func(it *Interp, fr *frame, a []Value) Value {
			return it.ctx.BV(uint64(it.concretizeInt(termArg(a[0]), true)), 64)
		},
		zz + "ConcreteBool": func(it *Interp, fr *frame, a []Value) Value {
			return it.ctx.Bool(it.branch(termArg(a[0])))
		},
		zz + "Bytes": func(it *Interp, fr *frame, a []Value) Value {
			n := it.concretizeInt(termArg(a[0]), true)
			s := make(Slice, n)
			for i := range s {
				s[i] = it.fresh("u8", 8)
			}
			return s
		},
		zz + "String": func(it *Interp, fr *frame, a []Value) Value {
			n := it.concretizeInt(termArg(a[0]), true)
			b := make([]*Term, n)
			for i := range b {
				b[i] = it.fresh("u8", 8)
			}
			return mkStr(b)
		},
		zz + "Assume": func(it *Interp, fr *frame, a []Value) Value { it.assume(termArg(a[0])); return nil },
		zz + "Assert": func(it *Interp, fr *frame, a []Value) Value {
			it.assert(termArg(a[0]), it.goString(a[1], "Assert label"))
			return nil
		},
		zz + "Fail": func(it *Interp, fr *frame, a []Value) Value {
			it.assert(it.ctx.False, it.goString(a[0], "Fail label"))
			return nil
		},
		zz + "Cover": func(it *Interp, fr *frame, a []Value) Value {
			it.covers[it.goString(a[0], "Cover label")] = true
			return nil
		},
		zz + "Observe": func(it *Interp, fr *frame, a []Value) Value {
			label := it.goString(a[0], "Observe label")
			v := a[1].(Iface)
			it.obsOrder = append(it.obsOrder, obsRec{label, v.v})
			if t, ok := v.v.(*Term); ok {
				if t.w == 0 {
					t = it.ctx.BoolToBV(t, 64)
				} else {
					t = it.ctx.Resize(t, 64, isSigned(v.t))
				}
				it.observed[label] = t
			}
			return nil
		},
		zz + "Param": func(it *Interp, fr *frame, a []Value) Value {
			name := it.goString(a[0], "Param name")
			v, ok := it.hs.spec.Params[name]
			if !ok {
				panic(&abort{"internal", "harness parameter " + name + " not set in spec"})
			}
			return it.ctx.BV(uint64(int64(v)), 64)
		},
		zz + "And": func(it *Interp, fr *frame, a []Value) Value { return it.ctx.And(termArg(a[0]), termArg(a[1])) },
		zz + "Or":  func(it *Interp, fr *frame, a []Value) Value { return it.ctx.Or(termArg(a[0]), termArg(a[1])) },
		zz + "Not": func(it *Interp, fr *frame, a []Value) Value { return it.ctx.Not(termArg(a[0])) },
		zz + "Implies": func(it *Interp, fr *frame, a []Value) Value {
			return it.ctx.Implies(termArg(a[0]), termArg(a[1]))
		},
		zz + "IteInt": func(it *Interp, fr *frame, a []Value) Value {
			return it.ctx.Ite(termArg(a[0]), termArg(a[1]), termArg(a[2]))
		},
		zz + "IteU64": func(it *Interp, fr *frame, a []Value) Value {
			return it.ctx.Ite(termArg(a[0]), termArg(a[1]), termArg(a[2]))
		},
		zz + "BytesEq": func(it *Interp, fr *frame, a []Value) Value {
			x, y := a[0].(Slice), a[1].(Slice)
			if len(x) != len(y) {
				return it.ctx.False
			}
			r := it.ctx.True
			for i := range x {
				r = it.ctx.And(r, it.ctx.Eq(x[i].(*Term), y[i].(*Term)))
			}
			return r
		},
		zz + "Symbolic": func(it *Interp, fr *frame, a []Value) Value { return it.ctx.True },
		// IsConst(x): the value is a constant on this path (no fork); natively always true
		zz + "IsConst": func(it *Interp, fr *frame, a []Value) Value { return it.ctx.Bool(termArg(a[0]).IsConst()) },
		zz + "Yield":    func(it *Interp, fr *frame, a []Value) Value { it.yield(); return nil },
		zz + "ClockAdvance": func(it *Interp, fr *frame, a []Value) Value {
			it.advance(termArg(a[0]))
			it.dueTimers()
			it.yield()
			return nil
		},
		zz + "NumGoroutines": func(it *Interp, fr *frame, a []Value) Value {
			n := 0
			for _, g := range it.gs {
				if !g.done {
					n++
				}
			}
			return it.ctx.BV(uint64(n), 64)
		},
		zz + "Note": func(it *Interp, fr *frame, a []Value) Value { return nil },
		zz + "AllocMark": func(it *Interp, fr *frame, a []Value) Value { it.allocTerms = nil; return nil },
		// AllocWithin(limit): every input-dependent allocation since AllocMark is <= limit elements
		zz + "AllocWithin": func(it *Interp, fr *frame, a []Value) Value {
			c := it.ctx
			r := c.True
			for _, t := range it.allocTerms {
				r = c.And(r, c.Ule(t, termArg(a[0])))
			}
			return r
		},
		// Flatten(v): every integer/bool scalar reachable through struct fields, arrays, slices,
		// strings and pointers of v, in declaration order, as []uint64; pointers contribute a
		// presence flag, slices and strings their length.
		zz + "Flatten": func(it *Interp, fr *frame, a []Value) Value {
			var out Slice
			c := it.ctx
			var walk func(v Value, depth int)
			walk = func(v Value, depth int) {
				if depth > 12 {
					return
				}
				switch v := v.(type) {
				case *Term:
					if v.w == 0 {
						out = append(out, c.BoolToBV(v, 64))
					} else {
						out = append(out, c.ZExt(v, 64))
					}
				case Struct:
					for _, f := range v {
						walk(f, depth+1)
					}
				case Array:
					for _, f := range v {
						walk(f, depth+1)
					}
				case *Value:
					if v == nil {
						out = append(out, c.BV(0, 64))
					} else {
						out = append(out, c.BV(1, 64))
						walk(*v, depth+1)
					}
				case Slice:
					out = append(out, c.BV(uint64(len(v)), 64))
					for _, f := range v {
						walk(f, depth+1)
					}
				case string, SymStr:
					b := c.strBytes(v)
					out = append(out, c.BV(uint64(len(b)), 64))
					for _, t := range b {
						out = append(out, c.ZExt(t, 64))
					}
				}
			}
			walk(a[0].(Iface).v, 0)
			if out == nil {
				out = Slice{}
			}
			return out
		},
		// FillSymbolic(ptr): every integer/bool scalar field reachable through nested structs
		// and arrays (not through pointers) becomes a fresh symbolic value.
		zz + "FillSymbolic": func(it *Interp, fr *frame, a []Value) Value {
			var walk func(p *Value)
			walk = func(p *Value) {
				switch v := (*p).(type) {
				case *Term:
					if v.w == 0 {
						*p = it.fresh("bool", 0)
					} else {
						*p = it.fresh(fmt.Sprintf("u%d", v.w), int(v.w))
					}
				case Struct:
					for i := range v {
						walk(&v[i])
					}
				case Array:
					for i := range v {
						walk(&v[i])
					}
				}
			}
			pv := a[0].(Iface).v.(*Value)
			walk(pv)
			return nil
		},

		// ---------- bytealg / runtime ----------
		"internal/bytealg.IndexByte": func(it *Interp, fr *frame, a []Value) Value {
			return it.indexByte(bytesOf(it, a[0]), termArg(a[1]))
		},
		"internal/bytealg.IndexByteString": func(it *Interp, fr *frame, a []Value) Value {
			return it.indexByte(it.ctx.strBytes(a[0]), termArg(a[1]))
		},
		"internal/bytealg.LastIndexByte": func(it *Interp, fr *frame, a []Value) Value {
			return it.lastIndexByte(bytesOf(it, a[0]), termArg(a[1]))
		},
		"internal/bytealg.LastIndexByteString": func(it *Interp, fr *frame, a []Value) Value {
			return it.lastIndexByte(it.ctx.strBytes(a[0]), termArg(a[1]))
		},
		"internal/bytealg.Count": func(it *Interp, fr *frame, a []Value) Value {
			return it.countByte(bytesOf(it, a[0]), termArg(a[1]))
		},
		"internal/bytealg.CountString": func(it *Interp, fr *frame, a []Value) Value {
			return it.countByte(it.ctx.strBytes(a[0]), termArg(a[1]))
		},
		"internal/bytealg.Equal": func(it *Interp, fr *frame, a []Value) Value {
			return it.bytesEq(bytesOf(it, a[0]), bytesOf(it, a[1]))
		},
		"bytes.Equal": func(it *Interp, fr *frame, a []Value) Value {
			return it.bytesEq(bytesOf(it, a[0]), bytesOf(it, a[1]))
		},
		"internal/bytealg.Compare": func(it *Interp, fr *frame, a []Value) Value {
			return it.bytesCompare(bytesOf(it, a[0]), bytesOf(it, a[1]))
		},
		"internal/bytealg.CompareString": func(it *Interp, fr *frame, a []Value) Value {
			return it.bytesCompare(it.ctx.strBytes(a[0]), it.ctx.strBytes(a[1]))
		},
		"internal/bytealg.MakeNoZero": func(it *Interp, fr *frame, a []Value) Value {
			n := it.concretizeInt(termArg(a[0]), true)
			s := make(Slice, n)
			for i := range s {
				s[i] = it.ctx.BV(0, 8)
			}
			return s
		},
		"internal/bytealg.Index": func(it *Interp, fr *frame, a []Value) Value {
			return it.indexSeq(bytesOf(it, a[0]), bytesOf(it, a[1]))
		},
		"internal/bytealg.IndexString": func(it *Interp, fr *frame, a []Value) Value {
			return it.indexSeq(it.ctx.strBytes(a[0]), it.ctx.strBytes(a[1]))
		},
		"strings.Index": func(it *Interp, fr *frame, a []Value) Value {
			return it.indexSeq(it.ctx.strBytes(a[0]), it.ctx.strBytes(a[1]))
		},
		"bytes.Index": func(it *Interp, fr *frame, a []Value) Value {
			return it.indexSeq(bytesOf(it, a[0]), bytesOf(it, a[1]))
		},
		"internal/bytealg.Cutover": func(it *Interp, fr *frame, a []Value) Value { return it.ctx.BV(1<<30, 64) },
		"runtime.KeepAlive":        func(it *Interp, fr *frame, a []Value) Value { return nil },
		"runtime.SetFinalizer":     func(it *Interp, fr *frame, a []Value) Value { return nil },
		"runtime.Gosched":          func(it *Interp, fr *frame, a []Value) Value { it.yield(); return nil },
		"runtime.GOMAXPROCS":       func(it *Interp, fr *frame, a []Value) Value { return it.ctx.BV(1, 64) },
		"runtime.NumCPU":           func(it *Interp, fr *frame, a []Value) Value { return it.ctx.BV(1, 64) },
		"internal/race.Acquire":    func(it *Interp, fr *frame, a []Value) Value { return nil },
		"internal/race.Release":    func(it *Interp, fr *frame, a []Value) Value { return nil },
		"internal/abi.NoEscape":    func(it *Interp, fr *frame, a []Value) Value { return a[0] },
		"internal/abi.Escape":      func(it *Interp, fr *frame, a []Value) Value { return a[0] },

		// ---------- strings.Builder (unsafe inside) ----------
		"(*strings.Builder).copyCheck": func(it *Interp, fr *frame, a []Value) Value { return nil },
		"(*strings.Builder).String": func(it *Interp, fr *frame, a []Value) Value {
			st := (*a[0].(*Value)).(Struct)
			buf := st[1].(Slice)
			b := make([]*Term, len(buf))
			for i, v := range buf {
				b[i] = v.(*Term)
			}
			return mkStr(b)
		},

		// ---------- sync ----------
		"(*sync.Mutex).Lock": func(it *Interp, fr *frame, a []Value) Value {
			ls := it.lockOf(a[0])
			if ls.held && ls.owner == it.cur {
				panic(&abort{"selfdeadlock", "sync.Mutex locked twice by the same goroutine in " + callerName(fr)})
			}
			it.blockUntil("Mutex.Lock", func() bool { return !ls.held })
			ls.held, ls.owner = true, it.cur
			return nil
		},
		"(*sync.Mutex).TryLock": func(it *Interp, fr *frame, a []Value) Value {
			ls := it.lockOf(a[0])
			if ls.held {
				return it.ctx.False
			}
			ls.held, ls.owner = true, it.cur
			return it.ctx.True
		},
		"(*sync.Mutex).Unlock": func(it *Interp, fr *frame, a []Value) Value {
			ls := it.lockOf(a[0])
			if !ls.held {
				panic(&abort{"gopanic", "fatal error: sync: unlock of unlocked mutex in " + callerName(fr)})
			}
			ls.held, ls.owner = false, nil
			return nil
		},
		"(*sync.RWMutex).Lock": func(it *Interp, fr *frame, a []Value) Value {
			ls := it.lockOf(a[0])
			if ls.held && ls.owner == it.cur {
				panic(&abort{"selfdeadlock", "sync.RWMutex write-locked twice by the same goroutine in " + callerName(fr)})
			}
			it.blockUntil("RWMutex.Lock", func() bool { return !ls.held && ls.readers == 0 })
			ls.held, ls.owner = true, it.cur
			return nil
		},
		"(*sync.RWMutex).Unlock": func(it *Interp, fr *frame, a []Value) Value {
			ls := it.lockOf(a[0])
			if !ls.held {
				panic(&abort{"gopanic", "fatal error: sync: Unlock of unlocked RWMutex in " + callerName(fr)})
			}
			ls.held, ls.owner = false, nil
			return nil
		},
		"(*sync.RWMutex).RLock": func(it *Interp, fr *frame, a []Value) Value {
			ls := it.lockOf(a[0])
			if ls.held && ls.owner == it.cur {
				panic(&abort{"selfdeadlock", "sync.RWMutex RLock while write-locked by the same goroutine in " + callerName(fr)})
			}
			it.blockUntil("RWMutex.RLock", func() bool { return !ls.held })
			ls.readers++
			return nil
		},
		"(*sync.RWMutex).RUnlock": func(it *Interp, fr *frame, a []Value) Value {
			ls := it.lockOf(a[0])
			if ls.readers <= 0 {
				panic(&abort{"gopanic", "fatal error: sync: RUnlock of unlocked RWMutex in " + callerName(fr)})
			}
			ls.readers--
			return nil
		},
		"(*sync.Once).Do": func(it *Interp, fr *frame, a []Value) Value {
			ls := it.lockOf(a[0])
			if ls.held {
				return nil
			}
			ls.held = true
			it.call(fr, token.NoPos, a[1], nil)
			return nil
		},
		"(*sync.WaitGroup).Add": func(it *Interp, fr *frame, a []Value) Value {
			ls := it.lockOf(a[0])
			ls.readers += int(it.concretizeInt(termArg(a[1]), true))
			if ls.readers < 0 {
				panic(it.throw("sync: negative WaitGroup counter"))
			}
			return nil
		},
		"(*sync.WaitGroup).Done": func(it *Interp, fr *frame, a []Value) Value {
			ls := it.lockOf(a[0])
			ls.readers--
			if ls.readers < 0 {
				panic(it.throw("sync: negative WaitGroup counter"))
			}
			return nil
		},
		"(*sync.WaitGroup).Wait": func(it *Interp, fr *frame, a []Value) Value {
			ls := it.lockOf(a[0])
			it.blockUntil("WaitGroup.Wait", func() bool { return ls.readers == 0 })
			return nil
		},
		"(*sync.WaitGroup).Go": func(it *Interp, fr *frame, a []Value) Value {
			ls := it.lockOf(a[0])
			ls.readers++
			f := a[1]
			// run f then Done: emulate with a closure-less wrapper goroutine
			it.spawnFunc(func() {
				it.call(nil, token.NoPos, f, nil)
				ls.readers--
			})
			return nil
		},
		"(*sync.Cond).Wait": func(it *Interp, fr *frame, a []Value) Value {
			cv := a[0].(*Value)
			st := (*cv).(Struct)
			L := condLocker(st)
			if it.condWaiters == nil {
				it.condWaiters = map[*Value][]*bool{}
			}
			woken := new(bool)
			it.condWaiters[cv] = append(it.condWaiters[cv], woken)
			it.callMethodByName(L, "Unlock")
			it.blockUntil("Cond.Wait", func() bool { return *woken })
			it.callMethodByName(L, "Lock")
			return nil
		},
		"(*sync.Cond).Signal": func(it *Interp, fr *frame, a []Value) Value {
			cv := a[0].(*Value)
			if ws := it.condWaiters[cv]; len(ws) > 0 {
				*ws[0] = true
				it.condWaiters[cv] = ws[1:]
			}
			return nil
		},
		"(*sync.Cond).Broadcast": func(it *Interp, fr *frame, a []Value) Value {
			cv := a[0].(*Value)
			for _, w := range it.condWaiters[cv] {
				*w = true
			}
			delete(it.condWaiters, cv)
			return nil
		},
		"(*sync.Pool).Get": func(it *Interp, fr *frame, a []Value) Value {
			st := (*a[0].(*Value)).(Struct)
			newf := st[len(st)-1]
			if f, ok := newf.(*ssa.Function); ok && f == nil {
				return Iface{}
			}
			return it.call(fr, token.NoPos, newf, nil)
		},
		"(*sync.Pool).Put": func(it *Interp, fr *frame, a []Value) Value { return nil },

		// ---------- sync/atomic ----------
		"sync/atomic.LoadInt32":   atomicLoad,
		"sync/atomic.LoadInt64":   atomicLoad,
		"sync/atomic.LoadUint32":  atomicLoad,
		"sync/atomic.LoadUint64":  atomicLoad,
		"sync/atomic.LoadUintptr": atomicLoad,
		"sync/atomic.LoadPointer": atomicLoad,
		"sync/atomic.StoreInt32":  atomicStore,
		"sync/atomic.StoreInt64":  atomicStore,
		"sync/atomic.StoreUint32": atomicStore,
		"sync/atomic.StoreUint64": atomicStore,
		"sync/atomic.StoreUintptr": atomicStore,
		"sync/atomic.StorePointer": atomicStore,
		"sync/atomic.AddInt32":    atomicAdd,
		"sync/atomic.AddInt64":    atomicAdd,
		"sync/atomic.AddUint32":   atomicAdd,
		"sync/atomic.AddUint64":   atomicAdd,
		"sync/atomic.AddUintptr":  atomicAdd,
		"sync/atomic.SwapInt32":   atomicSwap,
		"sync/atomic.SwapInt64":   atomicSwap,
		"sync/atomic.SwapUint32":  atomicSwap,
		"sync/atomic.SwapUint64":  atomicSwap,
		"sync/atomic.SwapPointer": atomicSwap,
		"sync/atomic.CompareAndSwapInt32":   atomicCAS,
		"sync/atomic.CompareAndSwapInt64":   atomicCAS,
		"sync/atomic.CompareAndSwapUint32":  atomicCAS,
		"sync/atomic.CompareAndSwapUint64":  atomicCAS,
		"sync/atomic.CompareAndSwapUintptr": atomicCAS,
		"sync/atomic.CompareAndSwapPointer": atomicCAS,
		"(*sync/atomic.Value).Load": func(it *Interp, fr *frame, a []Value) Value {
			return (*a[0].(*Value)).(Struct)[0]
		},
		"(*sync/atomic.Value).Store": func(it *Interp, fr *frame, a []Value) Value {
			(*a[0].(*Value)).(Struct)[0] = a[1]
			return nil
		},

		// ---------- errors / fmt ----------
		"errors.Is": func(it *Interp, fr *frame, a []Value) Value {
			err, target := a[0].(Iface), a[1].(Iface)
			for n := 0; n < 32; n++ {
				if err.t == nil {
					return it.ctx.Bool(target.t == nil)
				}
				if types.Comparable(err.t) && target.t != nil && types.Identical(err.t, target.t) {
					if it.branch(it.equals(err.t, err.v, target.v)) {
						return it.ctx.True
					}
				}
				if !it.hasMethod(err.t, "Unwrap") {
					return it.ctx.False
				}
				u := it.callMethodByName(err, "Unwrap")
				ui, ok := u.(Iface)
				if !ok {
					return it.ctx.False
				}
				err = ui
			}
			return it.ctx.False
		},
		"fmt.Sprintf": func(it *Interp, fr *frame, a []Value) Value {
			return it.sprintf(it.goString(a[0], "format"), a[1].(Slice))
		},
		"fmt.Errorf": func(it *Interp, fr *frame, a []Value) Value {
			return it.errorNewV(it.sprintf(it.goString(a[0], "format"), a[1].(Slice)))
		},
		"fmt.Sprint": func(it *Interp, fr *frame, a []Value) Value {
			return it.sprintf(strings.Repeat("%v", len(a[0].(Slice))), a[0].(Slice))
		},
		"fmt.Sprintln": func(it *Interp, fr *frame, a []Value) Value {
			return it.sprintf(strings.TrimSpace(strings.Repeat("%v ", len(a[0].(Slice))))+"\n", a[0].(Slice))
		},
		"fmt.Println":  func(it *Interp, fr *frame, a []Value) Value { return Tuple{it.ctx.BV(0, 64), Iface{}} },
		"fmt.Printf":   func(it *Interp, fr *frame, a []Value) Value { return Tuple{it.ctx.BV(0, 64), Iface{}} },
		"fmt.Print":    func(it *Interp, fr *frame, a []Value) Value { return Tuple{it.ctx.BV(0, 64), Iface{}} },
		"fmt.Fprintf":  func(it *Interp, fr *frame, a []Value) Value { return Tuple{it.ctx.BV(0, 64), Iface{}} },
		"fmt.Fprintln": func(it *Interp, fr *frame, a []Value) Value { return Tuple{it.ctx.BV(0, 64), Iface{}} },
		"fmt.Fprint":   func(it *Interp, fr *frame, a []Value) Value { return Tuple{it.ctx.BV(0, 64), Iface{}} },
		"strconv.Itoa": func(it *Interp, fr *frame, a []Value) Value {
			return strconv.FormatInt(it.concretizeInt(termArg(a[0]), true), 10)
		},
		"strconv.FormatInt": func(it *Interp, fr *frame, a []Value) Value {
			return strconv.FormatInt(it.concretizeInt(termArg(a[0]), true), int(it.concretizeInt(termArg(a[1]), true)))
		},
		"strconv.FormatUint": func(it *Interp, fr *frame, a []Value) Value {
			return strconv.FormatUint(uint64(it.concretizeInt(termArg(a[0]), false)), int(it.concretizeInt(termArg(a[1]), true)))
		},

		// ---------- math/rand ----------
		"math/rand.Intn": func(it *Interp, fr *frame, a []Value) Value {
			c := it.ctx
			n := termArg(a[0])
			v := it.freshInternal("rand", 64)
			it.assume(c.Ult(v, n))
			return v
		},
		"math/rand.Int63": func(it *Interp, fr *frame, a []Value) Value {
			c := it.ctx
			v := it.freshInternal("rand", 64)
			it.assume(c.Ult(v, c.BV(1<<63, 64)))
			return v
		},

		// ---------- time ----------
		"time.Now": func(it *Interp, fr *frame, a []Value) Value { return it.timeValue(it.now()) },
		"time.Unix": func(it *Interp, fr *frame, a []Value) Value {
			c := it.ctx
			return it.timeValue(c.Bin(OpAdd, c.Bin(OpMul, termArg(a[0]), c.BV(1e9, 64)), termArg(a[1])))
		},
		"time.Since": func(it *Interp, fr *frame, a []Value) Value {
			return it.ctx.Bin(OpSub, it.now(), timeNs(a[0]))
		},
		"time.Until": func(it *Interp, fr *frame, a []Value) Value {
			return it.ctx.Bin(OpSub, timeNs(a[0]), it.now())
		},
		"(time.Time).Add": func(it *Interp, fr *frame, a []Value) Value {
			return it.timeValue(it.ctx.Bin(OpAdd, timeNs(a[0]), termArg(a[1])))
		},
		"(time.Time).Sub": func(it *Interp, fr *frame, a []Value) Value {
			return it.ctx.Bin(OpSub, timeNs(a[0]), timeNs(a[1]))
		},
		"(time.Time).After": func(it *Interp, fr *frame, a []Value) Value {
			return it.ctx.Slt(timeNs(a[1]), timeNs(a[0]))
		},
		"(time.Time).Before": func(it *Interp, fr *frame, a []Value) Value {
			return it.ctx.Slt(timeNs(a[0]), timeNs(a[1]))
		},
		"(time.Time).Equal": func(it *Interp, fr *frame, a []Value) Value {
			return it.ctx.Eq(timeNs(a[0]), timeNs(a[1]))
		},
		"(time.Time).Compare": func(it *Interp, fr *frame, a []Value) Value {
			c := it.ctx
			x, y := timeNs(a[0]), timeNs(a[1])
			return c.Ite(c.Slt(x, y), c.BV(^uint64(0), 64), c.Ite(c.Eq(x, y), c.BV(0, 64), c.BV(1, 64)))
		},
		"(time.Time).IsZero": func(it *Interp, fr *frame, a []Value) Value {
			return it.ctx.Eq(timeNs(a[0]), it.ctx.BV(0, 64))
		},
		"(time.Time).Unix": func(it *Interp, fr *frame, a []Value) Value {
			return it.ctx.Bin(OpSDiv, timeNs(a[0]), it.ctx.BV(1e9, 64))
		},
		"(time.Time).UnixNano": func(it *Interp, fr *frame, a []Value) Value { return timeNs(a[0]) },
		"(time.Time).UnixMilli": func(it *Interp, fr *frame, a []Value) Value {
			return it.ctx.Bin(OpSDiv, timeNs(a[0]), it.ctx.BV(1e6, 64))
		},
		"(time.Time).UTC":   func(it *Interp, fr *frame, a []Value) Value { return a[0] },
		"(time.Time).Local": func(it *Interp, fr *frame, a []Value) Value { return a[0] },
		"(time.Time).Round": func(it *Interp, fr *frame, a []Value) Value { return a[0] },
		"(time.Time).String": func(it *Interp, fr *frame, a []Value) Value { return "<time>" },
		"(time.Duration).Seconds": func(it *Interp, fr *frame, a []Value) Value {
			d := termArg(a[0])
			if d.IsConst() {
				dd := sext(d.k, 64)
				return float64(dd/1e9) + float64(dd%1e9)/1e9
			}
			return SecFloat{d}
		},
		"(time.Duration).String": func(it *Interp, fr *frame, a []Value) Value { return "<duration>" },
		"time.Sleep": func(it *Interp, fr *frame, a []Value) Value {
			it.advance(termArg(a[0]))
			it.dueTimers()
			it.yield()
			return nil
		},
		"time.NewTimer": func(it *Interp, fr *frame, a []Value) Value {
			return it.newTimer(fr.fn, termArg(a[0]), nil, nil)
		},
		"time.AfterFunc": func(it *Interp, fr *frame, a []Value) Value {
			return it.newTimer(fr.fn, termArg(a[0]), a[1], nil)
		},
		"time.After": func(it *Interp, fr *frame, a []Value) Value {
			ch := &Chan{cap: 1, id: it.nextChanID(), elemT: fr.fn.Signature.Results().At(0).Type().Underlying().(*types.Chan).Elem()}
			it.timers = append(it.timers, &vtimer{when: it.ctx.Bin(OpAdd, it.now(), termArg(a[0])), ch: ch})
			return ch
		},
		"time.NewTicker": func(it *Interp, fr *frame, a []Value) Value {
			return it.newTimer(fr.fn, termArg(a[0]), nil, termArg(a[0]))
		},
		"(*time.Timer).Stop": func(it *Interp, fr *frame, a []Value) Value {
			t := it.timerOf(a[0])
			was := !t.stopped && !t.fired
			t.stopped = true
			return it.ctx.Bool(was)
		},
		"(*time.Ticker).Stop": func(it *Interp, fr *frame, a []Value) Value {
			it.timerOf(a[0]).stopped = true
			return nil
		},
		"(*time.Timer).Reset": func(it *Interp, fr *frame, a []Value) Value {
			t := it.timerOf(a[0])
			was := !t.stopped && !t.fired
			t.stopped, t.fired = false, false
			t.when = it.ctx.Bin(OpAdd, it.now(), termArg(a[1]))
			return it.ctx.Bool(was)
		},
		"(*time.Ticker).Reset": func(it *Interp, fr *frame, a []Value) Value {
			t := it.timerOf(a[0])
			t.stopped, t.fired = false, false
			t.when = it.ctx.Bin(OpAdd, it.now(), termArg(a[1]))
			return nil
		},

		// ---------- environment of package server ----------
		"github.com/DrmagicE/gmqtt/server.readMachineID": func(it *Interp, fr *frame, a []Value) Value {
			return Slice{it.ctx.BV(1, 8), it.ctx.BV(2, 8), it.ctx.BV(3, 8)}
		},
		"os.Hostname": func(it *Interp, fr *frame, a []Value) Value { return Tuple{"verifhost", Iface{}} },

		// ---------- crypto environment (FIPS / godebug / CPU feature probes) ----------
		"crypto/internal/fips140only.Enforced": func(it *Interp, fr *frame, a []Value) Value { return it.ctx.False },
		"crypto/fips140.Enforced":              func(it *Interp, fr *frame, a []Value) Value { return it.ctx.False },
		"crypto/fips140.Enabled":               func(it *Interp, fr *frame, a []Value) Value { return it.ctx.False },
		"crypto/internal/fips140.RecordApproved":    func(it *Interp, fr *frame, a []Value) Value { return nil },
		"crypto/internal/fips140.RecordNonApproved": func(it *Interp, fr *frame, a []Value) Value { return nil },
		"crypto/internal/boring.Unreachable":    func(it *Interp, fr *frame, a []Value) Value { return nil },
		"(*internal/godebug.Setting).Value":     func(it *Interp, fr *frame, a []Value) Value { return "" },
		"(*internal/godebug.Setting).IncNonDefault": func(it *Interp, fr *frame, a []Value) Value { return nil },

		// assembly kernels -> their portable Go twins in the same package
		"crypto/md5.block": func(it *Interp, fr *frame, a []Value) Value {
			return it.call(fr, token.NoPos, fr.fn.Pkg.Func("blockGeneric"), a)
		},
		"crypto/internal/fips140/sha256.blockAMD64": func(it *Interp, fr *frame, a []Value) Value {
			return it.call(fr, token.NoPos, fr.fn.Pkg.Func("blockGeneric"), a)
		},
		"crypto/internal/fips140/sha256.blockAVX2": func(it *Interp, fr *frame, a []Value) Value {
			return it.call(fr, token.NoPos, fr.fn.Pkg.Func("blockGeneric"), a)
		},
		"crypto/internal/fips140/sha256.blockSHANI": func(it *Interp, fr *frame, a []Value) Value {
			return it.call(fr, token.NoPos, fr.fn.Pkg.Func("blockGeneric"), a)
		},

		// context.WithValue checks key comparability through reflectlite; build the valueCtx directly
		"context.WithValue": func(it *Interp, fr *frame, a []Value) Value {
			T := fr.fn.Pkg.Type("valueCtx").Type()
			var cell Value = Struct{a[0], a[1], a[2]}
			return Iface{t: types.NewPointer(T), v: &cell}
		},

		// ---------- os ----------
		"os.Getpid": func(it *Interp, fr *frame, a []Value) Value { return it.ctx.BV(4242, 64) },
		"os.Exit": func(it *Interp, fr *frame, a []Value) Value {
			panic(&abort{"exit", "os.Exit called"})
		},
	}
}

type SecFloat struct{ ns *Term } // result of Duration.Seconds() on a symbolic duration

func callerName(fr *frame) string {
	if fr != nil && fr.caller != nil {
		return fr.caller.fn.String()
	}
	return "?"
}

func condLocker(st Struct) Iface {
	for _, f := range st {
		if i, ok := f.(Iface); ok && i.t != nil {
			return i
		}
	}
	panic("sync.Cond without Locker")
}

func bytesOf(it *Interp, v Value) []*Term {
	switch s := v.(type) {
	case Slice:
		b := make([]*Term, len(s))
		for i, x := range s {
			b[i] = x.(*Term)
		}
		return b
	case string, SymStr:
		return it.ctx.strBytes(s)
	}
	panic(fmt.Sprintf("bytesOf %T", v))
}

func (it *Interp) indexByte(b []*Term, ch *Term) Value {
	c := it.ctx
	r := c.BV(^uint64(0), 64)
	for i := len(b) - 1; i >= 0; i-- {
		r = c.Ite(c.Eq(b[i], ch), c.BV(uint64(i), 64), r)
	}
	return r
}

func (it *Interp) lastIndexByte(b []*Term, ch *Term) Value {
	c := it.ctx
	r := c.BV(^uint64(0), 64)
	for i := 0; i < len(b); i++ {
		r = c.Ite(c.Eq(b[i], ch), c.BV(uint64(i), 64), r)
	}
	return r
}

func (it *Interp) countByte(b []*Term, ch *Term) Value {
	c := it.ctx
	r := c.BV(0, 64)
	for i := range b {
		r = c.Bin(OpAdd, r, c.BoolToBV(c.Eq(b[i], ch), 64))
	}
	return r
}

func (it *Interp) bytesEq(x, y []*Term) Value {
	c := it.ctx
	if len(x) != len(y) {
		return c.False
	}
	r := c.True
	for i := range x {
		r = c.And(r, c.Eq(x[i], y[i]))
	}
	return r
}

func (it *Interp) bytesCompare(x, y []*Term) Value {
	c := it.ctx
	n := len(x)
	if len(y) < n {
		n = len(y)
	}
	var r *Term
	switch {
	case len(x) < len(y):
		r = c.BV(^uint64(0), 64)
	case len(x) > len(y):
		r = c.BV(1, 64)
	default:
		r = c.BV(0, 64)
	}
	for i := n - 1; i >= 0; i-- {
		r = c.Ite(c.Eq(x[i], y[i]), r, c.Ite(c.Ult(x[i], y[i]), c.BV(^uint64(0), 64), c.BV(1, 64)))
	}
	return r
}

func (it *Interp) indexSeq(s, sep []*Term) Value {
	c := it.ctx
	r := c.BV(^uint64(0), 64)
	if len(sep) > len(s) {
		return r
	}
	for i := len(s) - len(sep); i >= 0; i-- {
		m := c.True
		for j := range sep {
			m = c.And(m, c.Eq(s[i+j], sep[j]))
		}
		r = c.Ite(m, c.BV(uint64(i), 64), r)
	}
	return r
}

func atomicLoad(it *Interp, fr *frame, a []Value) Value  { return it.load(a[0]) }
func atomicStore(it *Interp, fr *frame, a []Value) Value { it.store(a[0], a[1]); return nil }
func atomicAdd(it *Interp, fr *frame, a []Value) Value {
	v := it.ctx.Bin(OpAdd, it.load(a[0]).(*Term), termArg(a[1]))
	it.store(a[0], v)
	return v
}
func atomicSwap(it *Interp, fr *frame, a []Value) Value {
	old := it.load(a[0])
	it.store(a[0], a[1])
	return old
}
func atomicCAS(it *Interp, fr *frame, a []Value) Value {
	old := it.load(a[0])
	var eq *Term
	switch o := old.(type) {
	case *Term:
		eq = it.ctx.Eq(o, termArg(a[1]))
	default:
		eq = it.ctx.Bool(old == a[1])
	}
	if it.branch(eq) {
		it.store(a[0], a[2])
		return it.ctx.True
	}
	return it.ctx.False
}

// ---- time values ----

func (it *Interp) timeValue(ns *Term) Value {
	return Struct{it.ctx.BV(0, 64), ns, (*Value)(nil)}
}

func timeNs(v Value) *Term { return v.(Struct)[1].(*Term) }

func (it *Interp) newTimer(fn *ssa.Function, d *Term, f Value, period *Term) Value {
	c := it.ctx
	// result type *time.Timer / *time.Ticker: struct whose first field is C
	pt := fn.Signature.Results().At(0).Type()
	obj := c.zero(mustDeref(pt))
	st := obj.(Struct)
	var ch *Chan
	if f == nil {
		ct := under(mustDeref(pt)).(*types.Struct).Field(0).Type()
		ch = &Chan{cap: 1, id: it.nextChanID(), elemT: under(ct).(*types.Chan).Elem()}
		st[0] = ch
	}
	p := &obj
	vt := &vtimer{when: c.Bin(OpAdd, it.now(), d), ch: ch, fn: f, obj: p, period: period}
	it.timers = append(it.timers, vt)
	return p
}

func (it *Interp) timerOf(p Value) *vtimer {
	pv := p.(*Value)
	for _, t := range it.timers {
		if t.obj == pv {
			return t
		}
	}
	panic(it.unsupported("Stop/Reset on a timer not created by time.NewTimer/AfterFunc"))
}

// spawnFunc runs an engine-level function as a goroutine.
func (it *Interp) spawnFunc(f func()) {
	panic(it.unsupported("WaitGroup.Go"))
}

// ---- fmt ----

func (it *Interp) errorNewV(s Value) Value {
	pkg := it.eng.prog.ImportedPackage("errors")
	return it.call(it.curFrame, token.NoPos, pkg.Func("New"), []Value{s})
}

// sprintf formats concretely where possible; symbolic scalars print as "<sym>".
// Only the verbs gmqtt uses matter; string-typed arguments stay symbolic-aware for
// the plain %s / %v case so that keys such as "prefix:"+id keep their bytes.
func (it *Interp) sprintf(format string, args Slice) Value {
	var out []*Term
	emit := func(s string) {
		for i := 0; i < len(s); i++ {
			out = append(out, it.ctx.BV(uint64(s[i]), 8))
		}
	}
	ai := 0
	for i := 0; i < len(format); i++ {
		ch := format[i]
		if ch != '%' {
			emit(string(ch))
			continue
		}
		j := i + 1
		for j < len(format) && strings.IndexByte("+-# 0123456789.", format[j]) >= 0 {
			j++
		}
		if j >= len(format) {
			emit("%!(NOVERB)")
			break
		}
		verb := format[j]
		spec := format[i : j+1]
		i = j
		if verb == '%' {
			emit("%")
			continue
		}
		if ai >= len(args) {
			emit("%!" + string(verb) + "(MISSING)")
			continue
		}
		arg := args[ai].(Iface)
		ai++
		it.formatArg(spec, verb, arg, &out, emit)
	}
	return mkStr(out)
}

func (it *Interp) formatArg(spec string, verb byte, arg Iface, out *[]*Term, emit func(string)) {
	if arg.t == nil {
		emit("<nil>")
		return
	}
	// error / Stringer
	if verb == 'v' || verb == 's' {
		if it.hasMethod(arg.t, "Error") {
			s := it.callMethodByName(arg, "Error")
			*out = append(*out, it.ctx.strBytes(s)...)
			return
		}
		if it.hasMethod(arg.t, "String") {
			if _, isTime := arg.v.(Struct); !isTime || true {
				s := it.callMethodByName(arg, "String")
				if sv, ok := s.(string); ok {
					emit(sv)
					return
				}
				if sv, ok := s.(SymStr); ok {
					*out = append(*out, sv.b...)
					return
				}
			}
		}
	}
	switch v := arg.v.(type) {
	case string:
		if verb == 's' || verb == 'v' {
			emit(v)
		} else {
			emit(fmt.Sprintf(spec, v))
		}
	case SymStr:
		*out = append(*out, v.b...)
	case *Term:
		if !v.IsConst() {
			emit("<sym>")
			return
		}
		if v.w == 0 {
			emit(fmt.Sprintf(spec, v.k == 1))
			return
		}
		if isSigned(arg.t) {
			emit(fmt.Sprintf(spec, sext(v.k, v.w)))
		} else {
			emit(fmt.Sprintf(spec, v.k))
		}
	case float64:
		emit(fmt.Sprintf(spec, v))
	case Slice:
		// []byte as string for %s
		if verb == 's' {
			for _, x := range v {
				if t, ok := x.(*Term); ok && t.w == 8 {
					*out = append(*out, t)
				}
			}
			return
		}
		emit("[")
		for i, x := range v {
			if i > 0 {
				emit(" ")
			}
			switch x := x.(type) {
			case string:
				emit(x)
			case SymStr:
				*out = append(*out, x.b...)
			case *Term:
				if x.IsConst() {
					emit(strconv.FormatUint(x.k, 10))
				} else {
					emit("<sym>")
				}
			default:
				emit("?")
			}
		}
		emit("]")
	default:
		emit("<" + arg.t.String() + ">")
	}
}
