package main

// Persistent SMT solver processes (one set per worker).  Queries are
// push / assert* / check-sat / [get-value] / pop over globally declared
// definitions (one define-fun per hash-consed term, emitted once).

import (
	"os"
	"bufio"
	"fmt"
	"io"
	"os/exec"
	"strconv"
	"strings"
	"time"
)

type Result int

const (
	Unsat Result = iota
	Sat
	Unknown
)

func (r Result) String() string { return [...]string{"unsat", "sat", "unknown"}[r] }

type backend struct {
	name    string
	cmd     *exec.Cmd
	in      io.WriteCloser
	out     *bufio.Reader
	emitted []bool // by term id
	ufs     map[string]bool
	vars    map[string]bool
	queries int
	time    time.Duration
	dead    bool
	log     io.Writer
}

func startBackend(name string, timeoutMs int, logw io.Writer) (*backend, error) {
	var cmd *exec.Cmd
	switch name {
	case "z3":
		cmd = exec.Command("z3", "-in", fmt.Sprintf("-t:%d", timeoutMs))
	case "z3-new":
		cmd = exec.Command("z3-new", "-in", fmt.Sprintf("-t:%d", timeoutMs))
	case "cvc5":
		cmd = exec.Command("cvc5", "--incremental", "--produce-models", fmt.Sprintf("--tlimit-per=%d", timeoutMs), "--lang=smt2")
	case "cvc5-int":
		cmd = exec.Command("cvc5", "--incremental", "--produce-models", "--solve-bv-as-int=sum", fmt.Sprintf("--tlimit-per=%d", timeoutMs), "--lang=smt2")
	default:
		return nil, fmt.Errorf("unknown backend %s", name)
	}
	in, err := cmd.StdinPipe()
	if err != nil {
		return nil, err
	}
	outp, err := cmd.StdoutPipe()
	if err != nil {
		return nil, err
	}
	cmd.Stderr = nil
	if err := cmd.Start(); err != nil {
		return nil, err
	}
	b := &backend{name: name, cmd: cmd, in: in, out: bufio.NewReaderSize(outp, 1<<16), ufs: map[string]bool{}, vars: map[string]bool{}, log: logw}
	b.send("(set-option :global-declarations true)\n")
	if strings.HasPrefix(name, "cvc5") {
		b.send("(set-logic ALL)\n")
	}
	b.send("(set-option :produce-models true)\n")
	return b, nil
}

func (b *backend) send(s string) {
	if b.log != nil {
		io.WriteString(b.log, s)
	}
	if _, err := io.WriteString(b.in, s); err != nil {
		b.dead = true
	}
}

func (b *backend) close() {
	if b == nil || b.cmd == nil {
		return
	}
	b.in.Close()
	b.cmd.Process.Kill()
	b.cmd.Wait()
}

// readSexp reads one line or one balanced s-expression.
func (b *backend) readSexp() (string, error) {
	var sb strings.Builder
	depth := 0
	started := false
	for {
		line, err := b.out.ReadString('\n')
		if err != nil && line == "" {
			return sb.String(), err
		}
		sb.WriteString(line)
		inStr := false
		for i := 0; i < len(line); i++ {
			ch := line[i]
			if ch == '"' {
				inStr = !inStr
			}
			if inStr {
				continue
			}
			if ch == '(' {
				depth++
				started = true
			} else if ch == ')' {
				depth--
			}
		}
		if strings.TrimSpace(sb.String()) == "" {
			sb.Reset()
			continue
		}
		if !started || depth <= 0 {
			return sb.String(), nil
		}
	}
}

func (b *backend) ensureEmitted(t *Term, sb *strings.Builder) {
	if t == nil || t.op == OpConst {
		return
	}
	if t.op == OpVar {
		if !b.vars[t.name] {
			b.vars[t.name] = true
			fmt.Fprintf(sb, "(declare-const %s %s)\n", t.name, sortStr(t.w))
		}
		return
	}
	if int(t.id) < len(b.emitted) && b.emitted[t.id] {
		return
	}
	b.ensureEmitted(t.a, sb)
	b.ensureEmitted(t.b, sb)
	b.ensureEmitted(t.c, sb)
	if t.op == OpUF && !b.ufs[t.name] {
		b.ufs[t.name] = true
		args := ""
		for _, a := range []*Term{t.a, t.b, t.c} {
			if a != nil {
				args += sortStr(a.w) + " "
			}
		}
		fmt.Fprintf(sb, "(declare-fun %s (%s) %s)\n", t.name, args, sortStr(t.w))
	}
	fmt.Fprintf(sb, "(define-fun t%d () %s %s)\n", t.id, sortOf(t), body(t))
	for int(t.id) >= len(b.emitted) {
		b.emitted = append(b.emitted, make([]bool, len(b.emitted)+1024)...)
	}
	b.emitted[t.id] = true
}

// check asks whether the conjunction is satisfiable; with wantVars non-nil and a
// sat answer it also returns their values.
func (b *backend) check(asserts []*Term, wantVars []*Term) (Result, Model, string) {
	if b.dead {
		return Unknown, nil, "backend dead"
	}
	start := time.Now()
	defer func() { b.time += time.Since(start); b.queries++ }()
	var sb strings.Builder
	for _, a := range asserts {
		b.ensureEmitted(a, &sb)
	}
	for _, v := range wantVars {
		b.ensureEmitted(v, &sb)
	}
	sb.WriteString("(push 1)\n")
	for _, a := range asserts {
		fmt.Fprintf(&sb, "(assert %s)\n", ref(a))
	}
	sb.WriteString("(check-sat)\n")
	b.send(sb.String())
	ans, err := b.readSexp()
	if err != nil {
		b.dead = true
		return Unknown, nil, "solver died: " + err.Error()
	}
	ans = strings.TrimSpace(ans)
	var res Result
	switch ans {
	case "sat":
		res = Sat
	case "unsat":
		res = Unsat
	case "unknown", "timeout":
		res = Unknown
	default:
		// (error ...) or anything unexpected: inconclusive
		b.send("(pop 1)\n")
		return Unknown, nil, "solver said: " + ans
	}
	var model Model
	if res == Sat && len(wantVars) > 0 {
		var q strings.Builder
		q.WriteString("(get-value (")
		for _, v := range wantVars {
			q.WriteString(ref(v))
			q.WriteString(" ")
		}
		q.WriteString("))\n")
		b.send(q.String())
		mv, err := b.readSexp()
		if err != nil {
			b.dead = true
			return Unknown, nil, "solver died in get-value"
		}
		if strings.Contains(mv, "(error") {
			b.send("(pop 1)\n")
			return Unknown, nil, "get-value error: " + mv
		}
		model, err = parseValues(mv, wantVars)
		if err != nil {
			b.send("(pop 1)\n")
			return Unknown, nil, "get-value parse: " + err.Error()
		}
	}
	b.send("(pop 1)\n")
	return res, model, ""
}

// parseValues parses ((name value) ...) with values #x.., #b.., true, false, (_ bvN w).
func parseValues(s string, vars []*Term) (Model, error) {
	toks := tokenize(s)
	m := Model{}
	// expect: ( ( name val ) ( name val ) ... )
	i := 0
	if len(toks) == 0 || toks[0] != "(" {
		return nil, fmt.Errorf("bad get-value output: %q", s)
	}
	i++
	vi := 0
	for i < len(toks) && toks[i] == "(" {
		i++
		// name may itself be an s-expr (UF application) — skip by depth
		if toks[i] == "(" {
			d := 0
			for {
				if toks[i] == "(" {
					d++
				} else if toks[i] == ")" {
					d--
				}
				i++
				if d == 0 {
					break
				}
			}
		} else {
			i++
		}
		// value
		var val uint64
		switch {
		case toks[i] == "true":
			val = 1
			i++
		case toks[i] == "false":
			val = 0
			i++
		case strings.HasPrefix(toks[i], "#x"):
			v, err := strconv.ParseUint(toks[i][2:], 16, 64)
			if err != nil {
				return nil, err
			}
			val = v
			i++
		case strings.HasPrefix(toks[i], "#b"):
			v, err := strconv.ParseUint(toks[i][2:], 2, 64)
			if err != nil {
				return nil, err
			}
			val = v
			i++
		case toks[i] == "(" && toks[i+1] == "_" && strings.HasPrefix(toks[i+2], "bv"):
			v, err := strconv.ParseUint(toks[i+2][2:], 10, 64)
			if err != nil {
				return nil, err
			}
			val = v
			i += 5
		default:
			return nil, fmt.Errorf("unparsed value token %q", toks[i])
		}
		if toks[i] != ")" {
			return nil, fmt.Errorf("expected ) got %q", toks[i])
		}
		i++
		if vi >= len(vars) {
			return nil, fmt.Errorf("too many values")
		}
		if vars[vi].op == OpVar {
			m[vars[vi].name] = val
		}
		vi++
	}
	if vi != len(vars) {
		return nil, fmt.Errorf("got %d values want %d", vi, len(vars))
	}
	return m, nil
}

func tokenize(s string) []string {
	var toks []string
	i := 0
	for i < len(s) {
		ch := s[i]
		switch {
		case ch == '(' || ch == ')':
			toks = append(toks, string(ch))
			i++
		case ch == ' ' || ch == '\n' || ch == '\t' || ch == '\r':
			i++
		default:
			j := i
			for j < len(s) && !strings.ContainsRune("() \n\t\r", rune(s[j])) {
				j++
			}
			toks = append(toks, s[i:j])
			i = j
		}
	}
	return toks
}

// ---- portfolio ----

type SolverStats struct {
	Queries  int
	Sat      int
	Unsat    int
	Unknown  int
	TimeS    map[string]float64
	PerBack  map[string]int
	Disagree int
}

var slowLog = os.Getenv("GOSYM_SLOWLOG") != ""
var slowThreshold = func() time.Duration {
	if d, err := time.ParseDuration(os.Getenv("GOSYM_SLOWLOG")); err == nil {
		return d
	}
	return 5 * time.Second
}()

type Portfolio struct {
	ctx       *Ctx
	timeoutMs int
	main      *backend // z3
	intb      *backend // cvc5 --solve-bv-as-int (lazily started; heavy arithmetic)
	cross     []*backend
	crosschk  bool
	stats     SolverStats
	lastErr   string
}

func NewPortfolio(ctx *Ctx, timeoutMs int, crosscheck bool) (*Portfolio, error) {
	p := &Portfolio{ctx: ctx, timeoutMs: timeoutMs, crosschk: crosscheck}
	p.stats.TimeS = map[string]float64{}
	p.stats.PerBack = map[string]int{}
	b, err := startBackend("z3", timeoutMs, nil)
	if err != nil {
		return nil, err
	}
	p.main = b
	return p, nil
}

func (p *Portfolio) Close() {
	p.collect()
	p.main.close()
	p.intb.close()
	for _, b := range p.cross {
		b.close()
	}
}

func (p *Portfolio) collect() {
	for _, b := range append([]*backend{p.main, p.intb}, p.cross...) {
		if b != nil {
			p.stats.TimeS[b.name] += b.time.Seconds()
			p.stats.PerBack[b.name] += b.queries
			b.time, b.queries = 0, 0
		}
	}
}

// Check: conjunction satisfiable?  assertion=true marks a property query (cross-checked
// in --crosscheck mode).
func (p *Portfolio) Check(asserts []*Term, wantVars []*Term, assertion bool) (Result, Model) {
	p.stats.Queries++
	t0 := time.Now()
	heavy := false
	for _, a := range asserts {
		if a.heavy {
			heavy = true
		}
	}
	for _, a := range asserts {
		if a.hasArr {
			heavy = false // arrays go to z3 only
			break
		}
	}
	var res Result
	var m Model
	var why string
	if heavy {
		if p.intb == nil {
			b, err := startBackend("cvc5-int", p.timeoutMs, nil)
			if err == nil {
				p.intb = b
			}
		}
		if p.intb != nil && !p.intb.dead {
			res, m, why = p.intb.check(asserts, wantVars)
			if res == Unknown {
				// fall back to bit-blasting
				res, m, why = p.main.check(asserts, wantVars)
			}
		} else {
			res, m, why = p.main.check(asserts, wantVars)
		}
	} else {
		res, m, why = p.main.check(asserts, wantVars)
		if res == Unknown && p.main.dead {
			// restart once
			p.main.close()
			if b, err := startBackend("z3", p.timeoutMs, nil); err == nil {
				p.collect()
				p.main = b
				res, m, why = p.main.check(asserts, wantVars)
			}
		}
	}
	if why != "" {
		p.lastErr = why
	}
	if slowLog && time.Since(t0) > slowThreshold {
		fmt.Fprintf(os.Stderr, "SLOW query %.1fs res=%v heavy=%v nasserts=%d last=%s\n", time.Since(t0).Seconds(), res, heavy, len(asserts), asserts[len(asserts)-1].String())
		for _, a := range asserts {
			fmt.Fprintf(os.Stderr, "    %s\n", a.String())
		}
	}
	if p.crosschk && assertion && res != Unknown {
		if len(p.cross) == 0 {
			for _, n := range []string{"z3-new", "cvc5"} {
				if b, err := startBackend(n, p.timeoutMs, nil); err == nil {
					p.cross = append(p.cross, b)
				}
			}
		}
		for _, b := range p.cross {
			r2, _, _ := b.check(asserts, nil)
			if r2 != Unknown && r2 != res {
				p.stats.Disagree++
				p.lastErr = fmt.Sprintf("solver disagreement: primary=%v %s=%v", res, b.name, r2)
				res = Unknown
			}
		}
	}
	switch res {
	case Sat:
		p.stats.Sat++
	case Unsat:
		p.stats.Unsat++
	default:
		p.stats.Unknown++
	}
	return res, m
}
