package main

import (
	"encoding/json"
	"flag"
	"fmt"
	"os"
	"path/filepath"
	"runtime"
	"sort"
	"strconv"
	"strings"
	"sync"
	"time"

	"golang.org/x/tools/go/packages"
	"golang.org/x/tools/go/ssa"
	"golang.org/x/tools/go/ssa/ssautil"
)

type Config struct {
	TimeoutMs      int
	MaxDecisions   int
	MaxSteps       int
	MaxConcretize  int
	MaxAlloc       int
	MaxTermsPerCtx int
	MapOrder       string
	SymMakeCap     int
	Crosscheck     bool
}

type HarnessSpec struct {
	Func       string         `json:"func"`
	Pkg        string         `json:"pkg,omitempty"`
	Desc       string         `json:"desc,omitempty"`
	Covers     []string       `json:"covers,omitempty"`
	Quick      map[string]int `json:"quick,omitempty"`
	Thorough   map[string]int `json:"thorough,omitempty"`
	AllowPanic bool           `json:"allow_panic,omitempty"`
	Witnesses  int            `json:"witnesses,omitempty"`
	Synctest   bool           `json:"synctest,omitempty"`
	Tier       string         `json:"tier,omitempty"` // "" both, or "thorough" only
	MaxSteps   int            `json:"max_steps,omitempty"`
	MapOrders  []string       `json:"map_orders,omitempty"`
	NoReplay   bool           `json:"no_replay,omitempty"`
	ReplayTries int           `json:"replay_tries,omitempty"`
	Bounds     string         `json:"bounds,omitempty"`
	Params     map[string]int `json:"-"`
}

type CheckSpec struct {
	Property    string            `json:"property"`
	Pkg         string            `json:"pkg"`
	Files       map[string]string `json:"files"` // repo-relative virtual path -> /verif-relative real path
	Harnesses   []*HarnessSpec    `json:"harnesses"`
	Assumptions []string          `json:"assumptions"`
	Outside     []string          `json:"outside_claim"`
	TimeoutS    map[string]int    `json:"timeout_s"`
	StubPkgs    []string          `json:"stub_pkgs"`
	Models      map[string]string `json:"models"`
	Generated   map[string]string `json:"generated"` // virtual path -> generator name
	ZeroStubs   []string          `json:"zero_stubs"` // functions replaced by "return zero values" (formatting / logging helpers)
	SkipInit    []string          `json:"skip_init"`  // packages whose initialiser is not run (globals stay zero)
	Optional    map[string][]string `json:"optional"` // virtual file -> harnesses that live in it; dropped together when the file stops compiling
}

type Engine2 struct{}

func (e *Engine) dummy() {}

var (
	verifDir = "/verif"
	repoDir  = "/repo"
)

func goEnv() []string {
	env := os.Environ()
	out := env[:0]
	for _, kv := range env {
		if strings.HasPrefix(kv, "GOFLAGS=") || strings.HasPrefix(kv, "GOPROXY=") || strings.HasPrefix(kv, "GOSUMDB=") || strings.HasPrefix(kv, "GOTOOLCHAIN=") || strings.HasPrefix(kv, "PATH=") {
			continue
		}
		out = append(out, kv)
	}
	out = append(out, "GOFLAGS=-mod=mod", "GOPROXY=off", "GOSUMDB=off", "GOTOOLCHAIN=local",
		"PATH="+os.Getenv("PATH"))
	return out
}

func fatal(code int, format string, a ...any) {
	fmt.Fprintf(os.Stderr, format+"\n", a...)
	os.Exit(code)
}

func main() {
	if len(os.Args) < 2 {
		fatal(2, "usage: gosym check|replay ...")
	}
	os.Setenv("PATH", "/opt/veriftools/go1.26.8/bin:"+os.Getenv("PATH"))
	os.Setenv("GOFLAGS", "-mod=mod")
	os.Setenv("GOPROXY", "off")
	os.Setenv("GOSUMDB", "off")
	os.Setenv("GOTOOLCHAIN", "local")
	if d := os.Getenv("VERIF_DIR"); d != "" {
		verifDir = d
	}
	if d := os.Getenv("VERIF_REPO"); d != "" {
		repoDir = d
	}
	switch os.Args[1] {
	case "check":
		os.Exit(cmdCheck(os.Args[2:]))
	case "replay":
		os.Exit(cmdReplay(os.Args[2:]))
	default:
		fatal(2, "unknown command %s", os.Args[1])
	}
}

func absVerif(p string) string {
	if filepath.IsAbs(p) {
		return p
	}
	return filepath.Join(verifDir, p)
}

// runGenerators writes generated harness sources into the work dir and adds them to the overlay.
func runGenerators(cs *CheckSpec, work string) error {
	for virt, gen := range cs.Generated {
		var data []byte
		var err error
		switch gen {
		case "hookcompose":
			data, err = genHookCompose(repoDir)
		default:
			err = fmt.Errorf("unknown generator %q", gen)
		}
		if err != nil {
			return err
		}
		out := filepath.Join(work, "gen_"+sanitize(virt)+".go")
		if err := os.WriteFile(out, data, 0o644); err != nil {
			return err
		}
		if cs.Files == nil {
			cs.Files = map[string]string{}
		}
		cs.Files[virt] = out
	}
	return nil
}

func loadSpec(path string) *CheckSpec {
	data, err := os.ReadFile(path)
	if err != nil {
		fatal(2, "spec: %v", err)
	}
	var cs CheckSpec
	if err := json.Unmarshal(data, &cs); err != nil {
		fatal(2, "spec %s: %v", path, err)
	}
	return &cs
}

func loadKnown(property string) []*KnownFinding {
	var out []*KnownFinding
	data, err := os.ReadFile(filepath.Join(verifDir, "known_findings.jsonl"))
	if err != nil {
		return nil
	}
	for _, line := range strings.Split(string(data), "\n") {
		line = strings.TrimSpace(line)
		if line == "" || strings.HasPrefix(line, "#") {
			continue
		}
		var kf KnownFinding
		if err := json.Unmarshal([]byte(line), &kf); err != nil {
			fatal(2, "known_findings.jsonl: %v in %q", err, line)
		}
		if kf.Property == property && kf.Status == "open" {
			k := kf
			out = append(out, &k)
		}
	}
	return out
}

// loadProgram type-checks /repo with the harness overlay and builds SSA.
func loadProgram(cs *CheckSpec) (*ssa.Program, map[string]*ssa.Package, error) {
	overlay := map[string][]byte{}
	add := func(virt, real string) error {
		data, err := os.ReadFile(absVerif(real))
		if err != nil {
			return err
		}
		overlay[filepath.Join(repoDir, virt)] = data
		return nil
	}
	for virt, real := range cs.Files {
		if err := add(virt, real); err != nil {
			return nil, nil, err
		}
	}
	if err := add("zzrt/zzrt.go", "harness/zzrt/zzrt_sym.go"); err != nil {
		return nil, nil, err
	}
	pkgset := map[string]bool{"github.com/DrmagicE/gmqtt/zzrt": true}
	if cs.Pkg != "" {
		pkgset[cs.Pkg] = true
	}
	for _, h := range cs.Harnesses {
		if h.Pkg != "" {
			pkgset[h.Pkg] = true
		}
	}
	var patterns []string
	for p := range pkgset {
		patterns = append(patterns, p)
	}
	sort.Strings(patterns)
	cfg := &packages.Config{
		Mode:    packages.LoadAllSyntax,
		Dir:     repoDir,
		Overlay: overlay,
		Env:     goEnv(),
		BuildFlags: []string{"-tags=zzsym"},
	}
	initial, err := packages.Load(cfg, patterns...)
	if err != nil {
		return nil, nil, err
	}
	var errs []string
	packages.Visit(initial, nil, func(p *packages.Package) {
		for _, e := range p.Errors {
			if len(errs) < 20 {
				errs = append(errs, e.Error())
			}
		}
	})
	if len(errs) > 0 {
		return nil, nil, fmt.Errorf("HARNESS-BUILD-ERROR:\n  %s", strings.Join(errs, "\n  "))
	}
	prog, pkgs := ssautil.AllPackages(initial, ssa.InstantiateGenerics)
	prog.Build()
	byPath := map[string]*ssa.Package{}
	for i, p := range pkgs {
		if p != nil {
			byPath[initial[i].PkgPath] = p
		}
	}
	return prog, byPath, nil
}

type harnessResult struct {
	Func         string             `json:"harness"`
	Desc         string             `json:"desc,omitempty"`
	Params       map[string]int     `json:"params"`
	MapOrder     string             `json:"map_order,omitempty"`
	Paths        int                `json:"paths"`
	PathEnds     map[string]int     `json:"path_ends"`
	Decisions    int64              `json:"decisions"`
	Assertions   int64              `json:"assertion_queries"`
	Discharged   int64              `json:"assertions_discharged"`
	Covers       map[string]int     `json:"covers"`
	MissingCover []string           `json:"missing_covers,omitempty"`
	Unknowns     []string           `json:"unknowns,omitempty"`
	Errors       []string           `json:"errors,omitempty"`
	Violations   int                `json:"violations"`
	KnownSeen    []string           `json:"known_findings_seen,omitempty"`
	WallS        float64            `json:"wall_s"`
	TimedOut     bool               `json:"timed_out,omitempty"`
	Witnesses    int                `json:"witnesses_solved"`
	Replayed     int                `json:"witnesses_replayed_ok"`
	Bounds       string             `json:"bounds,omitempty"`
	hs           *HarnessRun
}

func cmdCheck(args []string) int {
	fs := flag.NewFlagSet("check", flag.ExitOnError)
	specPath := fs.String("spec", "", "check spec JSON")
	tier := fs.String("tier", "quick", "quick|thorough")
	only := fs.String("only", "", "run only this harness")
	workers := fs.Int("workers", runtime.NumCPU(), "worker count")
	noReplay := fs.Bool("no-replay", false, "skip native replay (debug only; exit code 3 if violations)")
	noEvidence := fs.Bool("no-evidence", false, "do not write evidence")
	verbose := fs.Bool("v", false, "verbose")
	paramOverride := fs.String("param", "", "k=v,k=v overrides (debug)")
	fs.Parse(args)
	if t := os.Getenv("VERIF_TIER"); t != "" && !flagSet(fs, "tier") {
		*tier = t
	}
	seed := 0
	if s := os.Getenv("VERIF_SEED"); s != "" {
		seed, _ = strconv.Atoi(s)
	}
	start := time.Now()
	cs := loadSpec(*specPath)
	known := loadKnown(cs.Property)

	work := filepath.Join(verifDir, ".work", fmt.Sprintf("run-%d", os.Getpid()))
	os.MkdirAll(work, 0o755)
	defer os.RemoveAll(work)
	if err := runGenerators(cs, work); err != nil {
		fmt.Printf("INCONCLUSIVE property=%s reason=generator failed: %v\n", cs.Property, err)
		return 2
	}
	prog, pkgs, err := loadProgram(cs)
	lostHarness := false
	if err != nil && len(cs.Optional) > 0 {
		// harness files that reach into the representation may stop compiling when the
		// code under test is refactored: drop them (and the harnesses that live in them)
		// and decide with the harnesses that only use the API
		fmt.Println(err)
		drop := map[string]bool{}
		for f, hs := range cs.Optional {
			delete(cs.Files, f)
			for _, h := range hs {
				drop[h] = true
			}
		}
		var keep []*HarnessSpec
		for _, h := range cs.Harnesses {
			if drop[h.Func] {
				fmt.Printf("NOTE property=%s harness %s does not build against this tree and is skipped (its verdict is missing: the run cannot exit 0)\n", cs.Property, h.Func)
				lostHarness = true
			} else {
				keep = append(keep, h)
			}
		}
		cs.Harnesses = keep
		prog, pkgs, err = loadProgram(cs)
	}
	if err != nil {
		fmt.Println(err)
		fmt.Printf("INCONCLUSIVE property=%s reason=harness-does-not-build\n", cs.Property)
		return 2
	}
	loadS := time.Since(start).Seconds()

	eng := &Engine{prog: prog, cfg: &Config{
		TimeoutMs: 60000, MaxDecisions: 4000, MaxSteps: 20_000_000, MaxConcretize: 70000, MaxAlloc: 1 << 20,
		MaxTermsPerCtx: 1_500_000, SymMakeCap: 64,
	}}
	if *tier == "thorough" {
		eng.cfg.TimeoutMs = 300000
		eng.cfg.Crosscheck = true
	}
	eng.stubPkgs = append([]string{"go.uber.org/zap", "go.uber.org/zap/zapcore"}, cs.StubPkgs...)
	eng.zeroStubs = map[string]bool{}
	for _, f := range cs.ZeroStubs {
		eng.zeroStubs[f] = true
	}
	eng.skipInitPkgs = map[string]bool{}
	for _, p := range cs.SkipInit {
		eng.skipInitPkgs[p] = true
	}
	eng.models = map[string]*ssa.Function{}
	for callee, mname := range cs.Models {
		var mf *ssa.Function
		for _, p := range pkgs {
			if f := p.Func(mname); f != nil {
				mf = f
			}
		}
		if mf == nil {
			fmt.Printf("INCONCLUSIVE property=%s reason=model function %s not found\n", cs.Property, mname)
			return 2
		}
		eng.models[callee] = mf
	}
	if rp := prog.ImportedPackage("runtime"); rp != nil {
		eng.rtErrStr = rp.Type("errorString").Object().Type()
	}

	timeout := 1500
	if *tier == "thorough" {
		timeout = 3 * 3600
	}
	if v, ok := cs.TimeoutS[*tier]; ok {
		timeout = v
	}
	deadline := start.Add(time.Duration(timeout) * time.Second)

	var results []*harnessResult
	exit := 0
	bump := func(c int) {
		// precedence: 1 (confirmed violation) > 2 (inconclusive) > 3 (unreplayed, debug) > 0
		rank := map[int]int{0: 0, 3: 1, 2: 2, 1: 3}
		if rank[c] > rank[exit] {
			exit = c
		}
	}
	if lostHarness {
		bump(2)
	}
	var allViol []*Violation
	var allKnown []*Violation
	var allWit []*Violation
	specByFunc := map[string]*HarnessSpec{}
	for _, h := range cs.Harnesses {
		if *only != "" && h.Func != *only {
			continue
		}
		if h.Tier == "thorough" && *tier != "thorough" {
			continue
		}
		params := h.Quick
		if *tier == "thorough" && h.Thorough != nil {
			params = h.Thorough
		}
		h.Params = map[string]int{}
		for k, v := range params {
			h.Params[k] = v
		}
		if *paramOverride != "" {
			for _, kv := range strings.Split(*paramOverride, ",") {
				p := strings.SplitN(kv, "=", 2)
				n, _ := strconv.Atoi(p[1])
				h.Params[p[0]] = n
			}
		}
		if h.Witnesses == 0 {
			h.Witnesses = 8
			if *tier == "thorough" {
				h.Witnesses = 32
			}
		}
		specByFunc[h.Func] = h
		pkgPath := h.Pkg
		if pkgPath == "" {
			pkgPath = cs.Pkg
		}
		pkg := pkgs[pkgPath]
		if pkg == nil {
			fmt.Printf("INCONCLUSIVE property=%s reason=package %s not loaded\n", cs.Property, pkgPath)
			return 2
		}
		fn := pkg.Func(h.Func)
		if fn == nil {
			fmt.Printf("INCONCLUSIVE property=%s reason=harness %s not found in %s\n", cs.Property, h.Func, pkgPath)
			return 2
		}
		orders := h.MapOrders
		if len(orders) == 0 || *tier != "thorough" {
			orders = []string{""}
		}
		for _, order := range orders {
			eng.cfg.MapOrder = order
			if h.MaxSteps > 0 {
				eng.cfg.MaxSteps = h.MaxSteps
			} else {
				eng.cfg.MaxSteps = 20_000_000
			}
			hs := &HarnessRun{spec: h, fn: fn, known: known, pathsByEnd: map[string]int{}, violByLabel: map[string]int{}, knownSeen: map[string]*Violation{}, covers: map[string]int{}, stubs: map[string]bool{}, start: time.Now(), deadline: deadline}
			eng.runHarness(hs, *workers)
			r := &harnessResult{Func: h.Func, Desc: h.Desc, Params: h.Params, MapOrder: order, Paths: hs.paths, PathEnds: hs.pathsByEnd,
				Decisions: hs.transitions.Load(), Assertions: hs.assertions.Load(), Discharged: hs.discharged.Load(), Covers: hs.covers,
				Unknowns: hs.unknowns, Errors: hs.errors, Violations: len(hs.violations), WallS: time.Since(hs.start).Seconds(), TimedOut: hs.timedOut,
				Witnesses: len(hs.witnesses), Bounds: h.Bounds, hs: hs}
			for _, cv := range append([]string{}, h.Covers...) {
				if hs.covers[cv] == 0 {
					r.MissingCover = append(r.MissingCover, cv)
				}
			}
			if hs.pathsByEnd["ok"] == 0 && len(hs.violations) == 0 {
				r.MissingCover = append(r.MissingCover, "<harness end> (vacuity: no path reaches the end of the harness)")
			}
			for id := range hs.knownSeen {
				r.KnownSeen = append(r.KnownSeen, id)
			}
			sort.Strings(r.KnownSeen)
			results = append(results, r)
			allViol = append(allViol, hs.violations...)
			for _, id := range r.KnownSeen {
				allKnown = append(allKnown, hs.knownSeen[id])
			}
			allWit = append(allWit, hs.witnesses...)
			if *verbose || true {
				fmt.Printf("harness %-28s params=%v order=%q paths=%d ends=%v decisions=%d asserts=%d/%d viol=%d known=%v unknown=%d errors=%d %.1fs\n",
					h.Func, h.Params, order, r.Paths, r.PathEnds, r.Decisions, r.Discharged, r.Assertions, r.Violations, r.KnownSeen, len(r.Unknowns), len(r.Errors), r.WallS)
			}
			for i, e := range r.Errors {
				fmt.Printf("  ERROR %s: %s\n", h.Func, firstLine(e))
				if i == 0 && strings.HasPrefix(e, "internal") {
					fmt.Println(e)
				}
			}
			for _, u := range r.Unknowns {
				fmt.Printf("  UNKNOWN %s: %s\n", h.Func, firstLine(u))
			}
			for _, m := range r.MissingCover {
				fmt.Printf("  VACUOUS %s: cover %q never reached\n", h.Func, m)
			}
			if len(r.Errors) > 0 || len(r.Unknowns) > 0 || len(r.MissingCover) > 0 || r.TimedOut {
				bump(2)
				if r.TimedOut {
					fmt.Printf("  TIMEOUT %s: exploration not finished within %ds\n", h.Func, timeout)
				}
			}
		}
	}

	// ---- native replay: violations, known findings, witnesses ----
	replayed, replayOK := 0, 0
	confirmed := map[*Violation]bool{}
	if !*noReplay {
		var vecs []*Violation
		vecs = append(vecs, allViol...)
		vecs = append(vecs, allKnown...)
		vecs = append(vecs, allWit...)
		var rv []*Violation
		for _, v := range vecs {
			if h := specByFunc[v.Harness]; h != nil && h.NoReplay {
				if v.Label != "witness" {
					confirmed[v] = true // stated in evidence: not natively replayable
				}
				continue
			}
			rv = append(rv, v)
		}
		if len(rv) > 0 {
			res, err := nativeReplay(cs, specByFunc, rv, work)
			if err != nil {
				fmt.Printf("REPLAY-ERROR %v\n", err)
				bump(2)
			} else {
				for i, v := range rv {
					rr := res[i]
					if v.Label == "witness" {
						replayed++
						if rr.matchesWitness(v) {
							replayOK++
							for _, r := range results {
								if r.Func == v.Harness {
									r.Replayed++
									break
								}
							}
						} else {
							fmt.Printf("WITNESS-MISMATCH harness=%s native=%s %s inputs=%v\n", v.Harness, rr.Status, rr.Detail, v.Inputs)
							bump(2)
						}
						continue
					}
					if rr.confirms(v) {
						confirmed[v] = true
					} else {
						fmt.Printf("REPLAY-MISMATCH harness=%s label=%s: solver model does not reproduce natively (native: %s %s) — encoder or stub problem, not reported as violation; symbolic panic=%q inputs=%v\n", v.Harness, v.Label, rr.Status, rr.Detail, v.Panic, v.Inputs)
						bump(2)
					}
				}
			}
		}
	}

	// ---- report ----
	os.MkdirAll(filepath.Join(verifDir, "replays"), 0o755)
	nviol := 0
	for _, v := range allViol {
		if !*noReplay && !confirmed[v] {
			continue
		}
		nviol++
		name := fmt.Sprintf("%s-%s-%s-%d.json", cs.Property, v.Harness, sanitize(v.Label), nviol)
		path := filepath.Join(verifDir, "replays", name)
		v.Replay = path
		data, _ := json.MarshalIndent(v, "", " ")
		os.WriteFile(path, data, 0o644)
		fmt.Printf("VIOLATION property=%s replay=%s\n", cs.Property, path)
		fmt.Printf("  harness=%s label=%s inputs=%s observed=%v %s\n", v.Harness, v.Label, shortInputs(v.Inputs), v.Obs, v.Panic)
		if *noReplay {
			bump(3)
		} else {
			bump(1)
		}
	}
	seenKnown := map[string]bool{}
	for _, v := range allKnown {
		if seenKnown[v.Known] {
			continue
		}
		seenKnown[v.Known] = true
		for _, kf := range known {
			if kf.ID == v.Known {
				status := ""
				if !*noReplay && !confirmed[v] {
					status = " (NOT reproduced natively)"
				}
				fmt.Printf("KNOWN-FINDING: property=%s %s [%s; harness=%s label=%s inputs=%s]%s\n", cs.Property, kf.What, kf.ID, v.Harness, v.Label, shortInputs(v.Inputs), status)
			}
		}
	}

	wall := time.Since(start).Seconds()
	if !*noEvidence {
		writeEvidence(cs, eng, *tier, seed, results, allWit, allViol, nviol, replayOK, replayed, wall, loadS, exit)
	}
	fmt.Printf("RESULT property=%s tier=%s exit=%d paths=%d queries=%d (sat=%d unsat=%d unknown=%d) solver_time=%v wall=%.1fs\n",
		cs.Property, *tier, exit, totalPaths(results), eng.stats.Queries, eng.stats.Sat, eng.stats.Unsat, eng.stats.Unknown, fmtTimes(eng.stats.TimeS), wall)
	return exit
}

func shortInputs(in []uint64) string {
	if len(in) <= 32 {
		return fmt.Sprint(in)
	}
	return fmt.Sprintf("%v…(+%d more, see replay file)", in[:32], len(in)-32)
}

func flagSet(fs *flag.FlagSet, name string) bool {
	set := false
	fs.Visit(func(f *flag.Flag) {
		if f.Name == name {
			set = true
		}
	})
	return set
}

func firstLine(s string) string {
	if i := strings.IndexByte(s, '\n'); i >= 0 {
		return s[:i]
	}
	return s
}

func sanitize(s string) string {
	var sb strings.Builder
	for _, r := range s {
		if r >= 'a' && r <= 'z' || r >= 'A' && r <= 'Z' || r >= '0' && r <= '9' || r == '-' {
			sb.WriteRune(r)
		} else {
			sb.WriteByte('_')
		}
	}
	return sb.String()
}

func totalPaths(rs []*harnessResult) int {
	n := 0
	for _, r := range rs {
		n += r.Paths
	}
	return n
}

func fmtTimes(m map[string]float64) string {
	var parts []string
	for _, k := range sortedKeys(m) {
		parts = append(parts, fmt.Sprintf("%s=%.1fs", k, m[k]))
	}
	return "{" + strings.Join(parts, " ") + "}"
}

func writeEvidence(cs *CheckSpec, eng *Engine, tier string, seed int, results []*harnessResult, wit, viol []*Violation, nviol, replayOK, replayed int, wall, loadS float64, exit int) {
	states, trans := 0, int64(0)
	var assertQ, discharged int64
	for _, r := range results {
		states += r.Paths
		trans += r.Decisions
		assertQ += r.Assertions
		discharged += r.Discharged
	}
	var samples []any
	for i, w := range wit {
		if i >= 6 {
			break
		}
		samples = append(samples, map[string]any{"harness": w.Harness, "inputs": w.Inputs, "input_kinds": kinds(w.Log), "observed": w.Obs})
	}
	if len(samples) == 0 {
		for i, v := range viol {
			if i >= 3 {
				break
			}
			samples = append(samples, map[string]any{"harness": v.Harness, "label": v.Label, "inputs": v.Inputs})
		}
	}
	if len(samples) == 0 {
		samples = append(samples, "no complete path was solved on this run")
	}
	funcs := map[string]string{}
	eng.funcsSeen.Range(func(k, v any) bool {
		if !strings.Contains(k.(string), "zzrt") {
			funcs[k.(string)] = v.(string)
		}
		return true
	})
	stubs := map[string]bool{}
	for _, r := range results {
		for k := range r.hs.stubs {
			if !strings.HasPrefix(k, zz) {
				stubs[k] = true
			}
		}
	}
	if trans == 0 {
		trans = 1
	}
	ev := map[string]any{
		"property_id": cs.Property,
		"tier":        tier,
		"seed":        seed,
		"level":       "model_checking",
		"coverage": map[string]any{
			"states":                        max(states, 1),
			"transitions":                   trans,
			"traces_validated_against_impl": replayOK,
			"samples":                       samples,
			"explanation":                   "bounded symbolic execution of the real go/ssa of /repo (regenerated on this run) + SMT; states = completed symbolic paths, transitions = branch decisions on symbolic conditions; every path ends in discharged assertions or a reported outcome; traces_validated = complete paths whose solved inputs were replayed against the natively compiled code with identical observations",
			"harnesses":                     results,
			"functions_encoded":             funcs,
			"stubs_and_models_hit":          sortedKeys(stubs),
			"queries": map[string]any{
				"total": eng.stats.Queries, "sat": eng.stats.Sat, "unsat": eng.stats.Unsat, "unknown": eng.stats.Unknown,
				"assertion_queries": assertQ, "assertions_discharged": discharged, "per_backend": eng.stats.PerBack, "solver_disagreements": eng.stats.Disagree,
			},
			"solver_time_s":     eng.stats.TimeS,
			"load_and_ssa_s":    loadS,
			"witnesses_replayed": replayed,
			"outside_claim":     cs.Outside,
			"exhaustive":        false,
			"exit_code":         exit,
		},
		"assumptions": append([]string{
			"go/ssa lowering (x/tools v0.50.0), z3 4.8.12 / cvc5 1.0 (and z3 5.1.0 cross-check in thorough tier) are trusted",
			"results hold only within the bounds listed per harness; nothing is claimed outside them",
			"goroutines run cooperatively under one deterministic schedule family; map iteration in insertion order unless stated",
		}, cs.Assumptions...),
		"wall_s":     wall,
		"violations": nviol,
	}
	os.MkdirAll(filepath.Join(verifDir, "evidence"), 0o755)
	data, _ := json.MarshalIndent(ev, "", " ")
	os.WriteFile(filepath.Join(verifDir, "evidence", cs.Property+".json"), data, 0o644)
}

func kinds(log []nondetRec) []string {
	out := make([]string, len(log))
	for i, r := range log {
		out[i] = r.Kind
	}
	return out
}

var _ sync.Mutex
