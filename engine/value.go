package main

// Value domain of the symbolic interpreter.
//
//   bool, all integer kinds, uintptr      *Term (Bool / BitVec w)
//   float32/64                            float64 (concrete only)
//   string                                string (all-concrete) or SymStr (some symbolic byte)
//   pointer                               *Value (address of a cell) or *SymRef (symbolic index into scalar cells)
//   struct / array                        Struct / Array ([]Value, value semantics via copyVal)
//   slice                                 Slice ([]Value; nil-ness preserved)
//   map                                   *Map
//   chan                                  *Chan
//   interface                             Iface{t,v}
//   func                                  *ssa.Function, *Closure, *ssa.Builtin, nilFunc
//   tuple                                 Tuple
//
// Memory is a concrete object graph; only scalars are symbolic.  Paths are never
// merged, so there are no symbolic pointers apart from SymRef.

import (
	"fmt"
	"go/types"
	"strings"

	"golang.org/x/tools/go/ssa"
)

type Value = any

type Tuple []Value
type Struct []Value
type Array []Value
type Slice []Value

type SymStr struct{ b []*Term }

type Iface struct {
	t types.Type
	v Value
}

type Closure struct {
	Fn  *ssa.Function
	Env []Value
}

// SymRef addresses cells[idx] for a symbolic idx (scalar cells only).
type SymRef struct {
	cells []Value
	idx   *Term // 64-bit
	arr   bool  // large table: loads/stores go through SMT arrays instead of ite chains
}

type nilPtr struct{} // not used as value; nil pointers are (*Value)(nil)

// ---- type helpers ----

func under(t types.Type) types.Type { return t.Underlying() }

func intWidth(b *types.Basic) (w int, signed bool, ok bool) {
	switch b.Kind() {
	case types.Bool, types.UntypedBool:
		return 0, false, true
	case types.Int8:
		return 8, true, true
	case types.Int16:
		return 16, true, true
	case types.Int32, types.UntypedRune:
		return 32, true, true
	case types.Int64, types.Int, types.UntypedInt:
		return 64, true, true
	case types.Uint8:
		return 8, false, true
	case types.Uint16:
		return 16, false, true
	case types.Uint32:
		return 32, false, true
	case types.Uint64, types.Uint, types.Uintptr:
		return 64, false, true
	}
	return 0, false, false
}

func isSigned(t types.Type) bool {
	if b, ok := under(t).(*types.Basic); ok {
		_, s, _ := intWidth(b)
		return s
	}
	return false
}

func isFloat(t types.Type) bool {
	if b, ok := under(t).(*types.Basic); ok {
		return b.Info()&types.IsFloat != 0
	}
	return false
}

func isString(t types.Type) bool {
	if b, ok := under(t).(*types.Basic); ok {
		return b.Info()&types.IsString != 0
	}
	return false
}

func isScalarType(t types.Type) bool {
	if b, ok := under(t).(*types.Basic); ok {
		_, _, ok := intWidth(b)
		return ok
	}
	return false
}

// zero returns the zero value of type t.
func (c *Ctx) zero(t types.Type) Value {
	switch t := t.(type) {
	case *types.Basic:
		if t.Kind() == types.UntypedNil {
			panic("untyped nil has no zero value")
		}
		if w, _, ok := intWidth(t); ok {
			if w == 0 {
				return c.False
			}
			return c.BV(0, w)
		}
		switch {
		case t.Info()&types.IsFloat != 0:
			return float64(0)
		case t.Info()&types.IsString != 0:
			return ""
		case t.Kind() == types.UnsafePointer:
			return (*Value)(nil)
		case t.Info()&types.IsComplex != 0:
			return complex128(0)
		}
		panic(fmt.Sprintf("zero: basic %v", t))
	case *types.Pointer:
		return (*Value)(nil)
	case *types.Array:
		a := make(Array, t.Len())
		for i := range a {
			a[i] = c.zero(t.Elem())
		}
		return a
	case *types.Named:
		return c.zero(t.Underlying())
	case *types.Alias:
		return c.zero(types.Unalias(t))
	case *types.Interface:
		return Iface{}
	case *types.Slice:
		return Slice(nil)
	case *types.Struct:
		s := make(Struct, t.NumFields())
		for i := range s {
			s[i] = c.zero(t.Field(i).Type())
		}
		return s
	case *types.Tuple:
		if t.Len() == 1 {
			return c.zero(t.At(0).Type())
		}
		s := make(Tuple, t.Len())
		for i := range s {
			s[i] = c.zero(t.At(i).Type())
		}
		return s
	case *types.Chan:
		return (*Chan)(nil)
	case *types.Map:
		return (*Map)(nil)
	case *types.Signature:
		return (*ssa.Function)(nil)
	case *types.TypeParam:
		panic("zero of type parameter (generic body executed?)")
	}
	panic(fmt.Sprintf("zero: unexpected %T %v", t, t))
}

// copyVal copies aggregates (value semantics); everything else is immutable or a reference.
func copyVal(v Value) Value {
	switch v := v.(type) {
	case Struct:
		n := make(Struct, len(v))
		for i, f := range v {
			n[i] = copyVal(f)
		}
		return n
	case Array:
		n := make(Array, len(v))
		for i, f := range v {
			n[i] = copyVal(f)
		}
		return n
	case Tuple:
		// tuples are never mutated
		return v
	}
	return v
}

// ---- strings ----

func strLen(v Value) int {
	switch s := v.(type) {
	case string:
		return len(s)
	case SymStr:
		return len(s.b)
	}
	panic(fmt.Sprintf("strLen: %T", v))
}

func (c *Ctx) strBytes(v Value) []*Term {
	switch s := v.(type) {
	case string:
		b := make([]*Term, len(s))
		for i := 0; i < len(s); i++ {
			b[i] = c.BV(uint64(s[i]), 8)
		}
		return b
	case SymStr:
		return s.b
	}
	panic(fmt.Sprintf("strBytes: %T", v))
}

func mkStr(b []*Term) Value {
	for _, t := range b {
		if !t.IsConst() {
			cp := make([]*Term, len(b))
			copy(cp, b)
			return SymStr{cp}
		}
	}
	var sb strings.Builder
	sb.Grow(len(b))
	for _, t := range b {
		sb.WriteByte(byte(t.k))
	}
	return sb.String()
}

func (c *Ctx) strEq(x, y Value) *Term {
	if xs, ok := x.(string); ok {
		if ys, ok := y.(string); ok {
			return c.Bool(xs == ys)
		}
	}
	if strLen(x) != strLen(y) {
		return c.False
	}
	xb, yb := c.strBytes(x), c.strBytes(y)
	r := c.True
	for i := range xb {
		r = c.And(r, c.Eq(xb[i], yb[i]))
		if r == c.False {
			return r
		}
	}
	return r
}

// strLess: lexicographic x < y.
func (c *Ctx) strLess(x, y Value) *Term {
	if xs, ok := x.(string); ok {
		if ys, ok := y.(string); ok {
			return c.Bool(xs < ys)
		}
	}
	xb, yb := c.strBytes(x), c.strBytes(y)
	n := len(xb)
	if len(yb) < n {
		n = len(yb)
	}
	// result for equal common prefix
	r := c.Bool(len(xb) < len(yb))
	for i := n - 1; i >= 0; i-- {
		r = c.Ite(c.Eq(xb[i], yb[i]), r, c.Ult(xb[i], yb[i]))
	}
	return r
}

// ---- equality ----

// equals builds the Go == relation on two values of static type t.
func (it *Interp) equals(t types.Type, x, y Value) *Term {
	c := it.ctx
	switch x := x.(type) {
	case *Term:
		return c.Eq(x, y.(*Term))
	case float64:
		return c.Bool(x == y.(float64))
	case complex128:
		return c.Bool(x == y.(complex128))
	case string, SymStr:
		return c.strEq(x, y)
	case *Value:
		yp, ok := y.(*Value)
		if !ok {
			return c.False
		}
		return c.Bool(x == yp)
	case *SymRef:
		panic(it.unsupported("comparison of symbolic-index pointers"))
	case *Map:
		return c.Bool(x == y.(*Map))
	case *Chan:
		return c.Bool(x == y.(*Chan))
	case Struct:
		ys := y.(Struct)
		st := under(t).(*types.Struct)
		r := c.True
		for i := range x {
			if st.Field(i).Name() == "_" {
				continue
			}
			r = c.And(r, it.equals(st.Field(i).Type(), x[i], ys[i]))
			if r == c.False {
				return r
			}
		}
		return r
	case Array:
		ya := y.(Array)
		et := under(t).(*types.Array).Elem()
		r := c.True
		for i := range x {
			r = c.And(r, it.equals(et, x[i], ya[i]))
			if r == c.False {
				return r
			}
		}
		return r
	case Iface:
		yi := y.(Iface)
		if x.t == nil || yi.t == nil {
			return c.Bool(x.t == nil && yi.t == nil)
		}
		if !types.Identical(x.t, yi.t) {
			return c.False
		}
		if !types.Comparable(x.t) {
			panic(it.throw("runtime error: comparing uncomparable type " + x.t.String()))
		}
		return it.equals(x.t, x.v, yi.v)
	case *ssa.Function:
		// only comparison with nil is legal
		switch y := y.(type) {
		case *ssa.Function:
			return c.Bool(x == y)
		default:
			return c.False
		}
	case *Closure:
		if yf, ok := y.(*ssa.Function); ok && yf == nil {
			return c.False
		}
		yc, ok := y.(*Closure)
		return c.Bool(ok && yc == x)
	case *ssa.Builtin:
		return c.False
	case Slice:
		// only slice == nil is legal; represented by comparing with nil Slice
		ys := y.(Slice)
		if ys == nil {
			return c.Bool(x == nil)
		}
		if x == nil {
			return c.Bool(ys == nil)
		}
		panic("slice comparison")
	}
	panic(fmt.Sprintf("equals: unhandled %T", x))
}

// concKey gives a canonical string for a fully concrete comparable value.
func concKey(v Value, sb *strings.Builder) bool {
	switch v := v.(type) {
	case *Term:
		if !v.IsConst() {
			return false
		}
		fmt.Fprintf(sb, "i%d.%d;", v.w, v.k)
	case string:
		fmt.Fprintf(sb, "s%d:%s;", len(v), v)
	case SymStr:
		return false
	case float64:
		fmt.Fprintf(sb, "f%v;", v)
	case *Value:
		fmt.Fprintf(sb, "p%p;", v)
	case *Map:
		fmt.Fprintf(sb, "m%p;", v)
	case *Chan:
		fmt.Fprintf(sb, "c%p;", v)
	case Struct:
		sb.WriteString("{")
		for _, f := range v {
			if !concKey(f, sb) {
				return false
			}
		}
		sb.WriteString("}")
	case Array:
		sb.WriteString("[")
		for _, f := range v {
			if !concKey(f, sb) {
				return false
			}
		}
		sb.WriteString("]")
	case Iface:
		if v.t == nil {
			sb.WriteString("nil;")
			return true
		}
		sb.WriteString("I(")
		sb.WriteString(v.t.String())
		sb.WriteString(")")
		return concKey(v.v, sb)
	default:
		return false
	}
	return true
}

// ---- maps ----

type Map struct {
	keyT   types.Type
	keys   []Value
	vals   []Value
	live   []bool
	n      int
	index  map[string]int // concrete keys -> slot
	symKey int            // number of live entries with non-concrete keys
}

func newMap(keyT types.Type) *Map {
	return &Map{keyT: keyT, index: map[string]int{}}
}

func (m *Map) Len() int { return m.n }

// find returns the slot of key or -1.  May fork on undecided key equalities.
func (it *Interp) mapFind(m *Map, key Value) int {
	var sb strings.Builder
	if concKey(key, &sb) {
		if i, ok := m.index[sb.String()]; ok {
			return i
		}
		if m.symKey == 0 {
			return -1
		}
		// compare against symbolic keys only
		for i, k := range m.keys {
			if !m.live[i] {
				continue
			}
			var kb strings.Builder
			if concKey(k, &kb) {
				continue
			}
			if it.branch(it.equals(m.keyT, k, key)) {
				return i
			}
		}
		return -1
	}
	for i, k := range m.keys {
		if !m.live[i] {
			continue
		}
		if it.branch(it.equals(m.keyT, k, key)) {
			return i
		}
	}
	return -1
}

func (it *Interp) mapGet(m *Map, key Value) (Value, bool) {
	if m == nil {
		return nil, false
	}
	i := it.mapFind(m, key)
	if i < 0 {
		return nil, false
	}
	return m.vals[i], true
}

func (it *Interp) mapSet(m *Map, key, val Value) {
	if m == nil {
		panic(it.throw("assignment to entry in nil map"))
	}
	i := it.mapFind(m, key)
	if i >= 0 {
		m.vals[i] = val
		return
	}
	m.keys = append(m.keys, key)
	m.vals = append(m.vals, val)
	m.live = append(m.live, true)
	m.n++
	var sb strings.Builder
	if concKey(key, &sb) {
		m.index[sb.String()] = len(m.keys) - 1
	} else {
		m.symKey++
	}
}

func (it *Interp) mapDelete(m *Map, key Value) {
	if m == nil {
		return
	}
	i := it.mapFind(m, key)
	if i < 0 {
		return
	}
	m.live[i] = false
	m.n--
	var sb strings.Builder
	if concKey(m.keys[i], &sb) {
		delete(m.index, sb.String())
	} else {
		m.symKey--
	}
	m.vals[i] = nil
}

// mapIter iterates over a snapshot of the live slots in insertion order (one legal
// Go order; reverse order with it.eng.mapReverse).
type mapIter struct {
	m     *Map
	slots []int
	pos   int
	keyT  types.Type
	valT  types.Type
}

type strIter struct {
	s   string
	pos int
}
