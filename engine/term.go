package main

// Terms: hash-consed SMT terms over Bool and fixed-width bit-vectors (1..64 bits).
// Constants fold in the constructors, so fully concrete code produces no solver
// traffic.  One Ctx per worker (no locking).

import (
	"fmt"
	"math/bits"
	"strings"
)

type Op uint8

const (
	OpConst Op = iota
	OpVar
	// bool
	OpNot
	OpAnd
	OpOr
	OpEq // bv or bool operands, bool result
	OpUlt
	OpUle
	OpSlt
	OpSle
	OpIte // bool cond; result sort of branches
	// bv
	OpAdd
	OpSub
	OpMul
	OpUDiv
	OpURem
	OpSDiv
	OpSRem
	OpBAnd
	OpBOr
	OpBXor
	OpShl
	OpLShr
	OpAShr
	OpBNot
	OpNeg
	OpZExt    // k = new width
	OpSExt    // k = new width
	OpExtract // k = low bit ; width = result width
	OpUF      // uninterpreted function application: name, args list in a,b,c (<=3) -> width w
	OpConstArr // array (BitVec 64 -> BitVec w) with every element = k
	OpStore    // a=array b=index(64) c=value(w)
	OpSelect   // a=array b=index(64) -> BitVec w
)

var opNames = [...]string{
	OpNot: "not", OpAnd: "and", OpOr: "or", OpEq: "=", OpUlt: "bvult", OpUle: "bvule",
	OpSlt: "bvslt", OpSle: "bvsle", OpIte: "ite", OpAdd: "bvadd", OpSub: "bvsub",
	OpMul: "bvmul", OpUDiv: "bvudiv", OpURem: "bvurem", OpSDiv: "bvsdiv", OpSRem: "bvsrem",
	OpBAnd: "bvand", OpBOr: "bvor", OpBXor: "bvxor", OpShl: "bvshl", OpLShr: "bvlshr",
	OpAShr: "bvashr", OpBNot: "bvnot", OpNeg: "bvneg",
}

// Term is an immutable SMT term.  w==0 means sort Bool.
type Term struct {
	op      Op
	w       uint8
	k       uint64 // constant value / parameter
	a, b, c *Term
	name    string // OpVar, OpUF
	id      int32
	heavy   bool // mentions mul/div (routed to the integer back end too)
	arr     bool // sort is (Array (_ BitVec 64) (_ BitVec w))
	hasArr  bool // mentions an array term (not sent to the bv-as-int back end)
}

func (t *Term) IsConst() bool { return t.op == OpConst }
func (t *Term) IsBool() bool  { return t.w == 0 }
func (t *Term) Width() int    { return int(t.w) }

type termKey struct {
	op      Op
	w       uint8
	k       uint64
	a, b, c int32
	name    string
}

type Ctx struct {
	tab   map[termKey]*Term
	terms []*Term // by id
	True  *Term
	False *Term
	// evaluation memo
	evalEpoch uint32
	evalStamp []uint32
	evalVal   []uint64
}

func NewCtx() *Ctx {
	c := &Ctx{tab: make(map[termKey]*Term, 1<<12)}
	c.True = c.mk(OpConst, 0, 1, nil, nil, nil, "")
	c.False = c.mk(OpConst, 0, 0, nil, nil, nil, "")
	return c
}

func tid(t *Term) int32 {
	if t == nil {
		return -1
	}
	return t.id
}

func (c *Ctx) mk(op Op, w uint8, k uint64, a, b, cc *Term, name string) *Term {
	key := termKey{op, w, k, tid(a), tid(b), tid(cc), name}
	if t, ok := c.tab[key]; ok {
		return t
	}
	t := &Term{op: op, w: w, k: k, a: a, b: b, c: cc, name: name, id: int32(len(c.terms))}
	switch op {
	case OpMul, OpUDiv, OpURem, OpSDiv, OpSRem:
		if !(a.IsConst() && bits.OnesCount64(a.k) <= 1) && !(b.IsConst() && bits.OnesCount64(b.k) <= 1) {
			t.heavy = true
		}
	}
	if (a != nil && a.heavy) || (b != nil && b.heavy) || (cc != nil && cc.heavy) {
		t.heavy = true
	}
	if op == OpConstArr || op == OpStore {
		t.arr = true
	}
	if t.arr || (a != nil && a.hasArr) || (b != nil && b.hasArr) || (cc != nil && cc.hasArr) {
		t.hasArr = true
	}
	c.tab[key] = t
	c.terms = append(c.terms, t)
	return t
}

func (c *Ctx) NumTerms() int { return len(c.terms) }

func mask(w uint8) uint64 {
	if w >= 64 {
		return ^uint64(0)
	}
	return (uint64(1) << w) - 1
}

func sext(v uint64, w uint8) int64 {
	if w >= 64 {
		return int64(v)
	}
	sh := 64 - uint(w)
	return int64(v<<sh) >> sh
}

func (c *Ctx) Bool(b bool) *Term {
	if b {
		return c.True
	}
	return c.False
}

func (c *Ctx) BV(v uint64, w int) *Term {
	return c.mk(OpConst, uint8(w), v&mask(uint8(w)), nil, nil, nil, "")
}

func (c *Ctx) Var(name string, w int) *Term {
	return c.mk(OpVar, uint8(w), 0, nil, nil, nil, name)
}

func (c *Ctx) UF(name string, w int, args ...*Term) *Term {
	var a, b, d *Term
	if len(args) > 0 {
		a = args[0]
	}
	if len(args) > 1 {
		b = args[1]
	}
	if len(args) > 2 {
		d = args[2]
	}
	if len(args) > 3 {
		panic("UF arity > 3")
	}
	return c.mk(OpUF, uint8(w), 0, a, b, d, name)
}

// ---- boolean constructors ----

func (c *Ctx) Not(a *Term) *Term {
	if a.w != 0 {
		panic("Not on bv")
	}
	if a.IsConst() {
		return c.Bool(a.k == 0)
	}
	switch a.op {
	case OpNot:
		return a.a
	}
	return c.mk(OpNot, 0, 0, a, nil, nil, "")
}

func (c *Ctx) And(a, b *Term) *Term {
	if a.IsConst() {
		if a.k == 0 {
			return c.False
		}
		return b
	}
	if b.IsConst() {
		if b.k == 0 {
			return c.False
		}
		return a
	}
	if a == b {
		return a
	}
	if a.id > b.id {
		a, b = b, a
	}
	return c.mk(OpAnd, 0, 0, a, b, nil, "")
}

func (c *Ctx) Or(a, b *Term) *Term {
	if a.IsConst() {
		if a.k == 1 {
			return c.True
		}
		return b
	}
	if b.IsConst() {
		if b.k == 1 {
			return c.True
		}
		return a
	}
	if a == b {
		return a
	}
	if a.id > b.id {
		a, b = b, a
	}
	return c.mk(OpOr, 0, 0, a, b, nil, "")
}

func (c *Ctx) Implies(a, b *Term) *Term { return c.Or(c.Not(a), b) }

func (c *Ctx) Eq(a, b *Term) *Term {
	if a.w != b.w {
		panic(fmt.Sprintf("Eq width mismatch %d vs %d", a.w, b.w))
	}
	if a == b {
		return c.True
	}
	if a.IsConst() && b.IsConst() {
		return c.Bool(a.k == b.k)
	}
	if a.w == 0 {
		// bool equality
		if a.IsConst() {
			if a.k == 1 {
				return b
			}
			return c.Not(b)
		}
		if b.IsConst() {
			if b.k == 1 {
				return a
			}
			return c.Not(a)
		}
	}
	// ite(c, k1, k2) == k  simplification (common with bool->int conversions)
	if b.IsConst() && a.op == OpIte && a.b.IsConst() && a.c.IsConst() {
		eb, ec := a.b.k == b.k, a.c.k == b.k
		switch {
		case eb && ec:
			return c.True
		case eb && !ec:
			return a.a
		case !eb && ec:
			return c.Not(a.a)
		default:
			return c.False
		}
	}
	if a.IsConst() && b.op == OpIte && b.b.IsConst() && b.c.IsConst() {
		return c.Eq(b, a)
	}
	if a.id > b.id {
		a, b = b, a
	}
	return c.mk(OpEq, 0, 0, a, b, nil, "")
}

func (c *Ctx) Ite(cond, a, b *Term) *Term {
	if cond.w != 0 {
		panic("Ite cond not bool")
	}
	if a.w != b.w {
		panic("Ite width mismatch")
	}
	if cond.IsConst() {
		if cond.k == 1 {
			return a
		}
		return b
	}
	if a == b {
		return a
	}
	if a.w == 0 {
		if a.IsConst() && b.IsConst() {
			if a.k == 1 {
				return cond
			}
			return c.Not(cond)
		}
		if a.IsConst() {
			if a.k == 1 {
				return c.Or(cond, b)
			}
			return c.And(c.Not(cond), b)
		}
		if b.IsConst() {
			if b.k == 1 {
				return c.Or(c.Not(cond), a)
			}
			return c.And(cond, a)
		}
	}
	return c.mk(OpIte, a.w, 0, cond, a, b, "")
}

func (c *Ctx) cmp(op Op, a, b *Term) *Term {
	if a.w != b.w {
		panic(fmt.Sprintf("cmp width mismatch %d vs %d", a.w, b.w))
	}
	if a.IsConst() && b.IsConst() {
		switch op {
		case OpUlt:
			return c.Bool(a.k < b.k)
		case OpUle:
			return c.Bool(a.k <= b.k)
		case OpSlt:
			return c.Bool(sext(a.k, a.w) < sext(b.k, b.w))
		case OpSle:
			return c.Bool(sext(a.k, a.w) <= sext(b.k, b.w))
		}
	}
	if a == b {
		return c.Bool(op == OpUle || op == OpSle)
	}
	if op == OpUlt && b.IsConst() && b.k == 0 {
		return c.False
	}
	if op == OpUle && a.IsConst() && a.k == 0 {
		return c.True
	}
	// zero-extended operand compared with constant: narrow
	return c.mk(op, 0, 0, a, b, nil, "")
}

func (c *Ctx) Ult(a, b *Term) *Term { return c.cmp(OpUlt, a, b) }
func (c *Ctx) Ule(a, b *Term) *Term { return c.cmp(OpUle, a, b) }
func (c *Ctx) Slt(a, b *Term) *Term { return c.cmp(OpSlt, a, b) }
func (c *Ctx) Sle(a, b *Term) *Term { return c.cmp(OpSle, a, b) }

// ---- bit-vector constructors ----

func foldBin(op Op, x, y uint64, w uint8) (uint64, bool) {
	m := mask(w)
	switch op {
	case OpAdd:
		return (x + y) & m, true
	case OpSub:
		return (x - y) & m, true
	case OpMul:
		return (x * y) & m, true
	case OpUDiv:
		if y == 0 {
			return m, true // SMT-LIB semantics; Go code guards before
		}
		return (x / y) & m, true
	case OpURem:
		if y == 0 {
			return x, true
		}
		return (x % y) & m, true
	case OpSDiv:
		sx, sy := sext(x, w), sext(y, w)
		if sy == 0 {
			if sx < 0 {
				return 1, true
			}
			return m, true
		}
		if sy == -1 {
			return uint64(-sx) & m, true
		}
		return uint64(sx/sy) & m, true
	case OpSRem:
		sx, sy := sext(x, w), sext(y, w)
		if sy == 0 {
			return x, true
		}
		if sy == -1 {
			return 0, true
		}
		return uint64(sx%sy) & m, true
	case OpBAnd:
		return x & y, true
	case OpBOr:
		return x | y, true
	case OpBXor:
		return x ^ y, true
	case OpShl:
		if y >= uint64(w) {
			return 0, true
		}
		return (x << y) & m, true
	case OpLShr:
		if y >= uint64(w) {
			return 0, true
		}
		return (x >> y) & m, true
	case OpAShr:
		sx := sext(x, w)
		if y >= uint64(w) {
			if sx < 0 {
				return m, true
			}
			return 0, true
		}
		return uint64(sx>>y) & m, true
	}
	return 0, false
}

func (c *Ctx) Bin(op Op, a, b *Term) *Term {
	if a.w != b.w || a.w == 0 {
		panic(fmt.Sprintf("Bin %v width mismatch %d vs %d", opNames[op], a.w, b.w))
	}
	if a.IsConst() && b.IsConst() {
		v, _ := foldBin(op, a.k, b.k, a.w)
		return c.BV(v, int(a.w))
	}
	switch op {
	case OpAdd:
		if a.IsConst() && a.k == 0 {
			return b
		}
		if b.IsConst() && b.k == 0 {
			return a
		}
		if a.IsConst() { // canonical: const on the right
			a, b = b, a
		}
		// (x + k1) + k2
		if b.IsConst() && a.op == OpAdd && a.b.IsConst() {
			return c.Bin(OpAdd, a.a, c.BV(a.b.k+b.k, int(a.w)))
		}
	case OpSub:
		if b.IsConst() && b.k == 0 {
			return a
		}
		if a == b {
			return c.BV(0, int(a.w))
		}
		if b.IsConst() {
			return c.Bin(OpAdd, a, c.BV(-b.k, int(a.w)))
		}
	case OpMul:
		if a.IsConst() {
			a, b = b, a
		}
		if b.IsConst() {
			if b.k == 0 {
				return b
			}
			if b.k == 1 {
				return a
			}
		}
	case OpBAnd:
		if a.IsConst() {
			a, b = b, a
		}
		if b.IsConst() {
			if b.k == 0 {
				return b
			}
			if b.k == mask(a.w) {
				return a
			}
		}
		if a == b {
			return a
		}
	case OpBOr:
		if a.IsConst() {
			a, b = b, a
		}
		if b.IsConst() {
			if b.k == 0 {
				return a
			}
			if b.k == mask(a.w) {
				return b
			}
		}
		if a == b {
			return a
		}
	case OpBXor:
		if a.IsConst() {
			a, b = b, a
		}
		if b.IsConst() && b.k == 0 {
			return a
		}
		if a == b {
			return c.BV(0, int(a.w))
		}
	case OpShl, OpLShr, OpAShr:
		if b.IsConst() && b.k == 0 {
			return a
		}
		if b.IsConst() && b.k >= uint64(a.w) && op != OpAShr {
			return c.BV(0, int(a.w))
		}
	case OpUDiv, OpSDiv:
		if b.IsConst() && b.k == 1 {
			return a
		}
		// (zext(x) * k) / k == zext(x) when the product cannot overflow (time.Duration(x)*time.Second / 1e9)
		if b.IsConst() && b.k != 0 && a.op == OpMul && a.b.IsConst() && a.b.k == b.k && a.a.op == OpZExt {
			if int(a.a.a.w)+bits.Len64(b.k) <= 62 {
				return a.a
			}
		}
	}
	return c.mk(op, a.w, 0, a, b, nil, "")
}

func (c *Ctx) BNot(a *Term) *Term {
	if a.IsConst() {
		return c.BV(^a.k, int(a.w))
	}
	if a.op == OpBNot {
		return a.a
	}
	return c.mk(OpBNot, a.w, 0, a, nil, nil, "")
}

func (c *Ctx) Neg(a *Term) *Term {
	if a.IsConst() {
		return c.BV(-a.k, int(a.w))
	}
	return c.mk(OpNeg, a.w, 0, a, nil, nil, "")
}

func (c *Ctx) ZExt(a *Term, w int) *Term {
	if int(a.w) == w {
		return a
	}
	if int(a.w) > w {
		panic("ZExt narrowing")
	}
	if a.IsConst() {
		return c.BV(a.k, w)
	}
	if a.op == OpZExt {
		return c.ZExt(a.a, w)
	}
	if a.op == OpIte && a.b.IsConst() && a.c.IsConst() {
		return c.Ite(a.a, c.BV(a.b.k, w), c.BV(a.c.k, w))
	}
	return c.mk(OpZExt, uint8(w), 0, a, nil, nil, "")
}

func (c *Ctx) SExt(a *Term, w int) *Term {
	if int(a.w) == w {
		return a
	}
	if int(a.w) > w {
		panic("SExt narrowing")
	}
	if a.IsConst() {
		return c.BV(uint64(sext(a.k, a.w)), w)
	}
	if a.op == OpZExt { // zero-extended value is non-negative
		return c.ZExt(a.a, w)
	}
	return c.mk(OpSExt, uint8(w), 0, a, nil, nil, "")
}

// Extract bits [lo, lo+w).
func (c *Ctx) Extract(a *Term, lo, w int) *Term {
	if lo == 0 && w == int(a.w) {
		return a
	}
	if lo+w > int(a.w) {
		panic("Extract out of range")
	}
	if a.IsConst() {
		return c.BV(a.k>>uint(lo), w)
	}
	if (a.op == OpZExt || a.op == OpSExt) && lo == 0 {
		if w <= int(a.a.w) {
			return c.Extract(a.a, 0, w)
		}
		if a.op == OpZExt {
			return c.ZExt(a.a, w)
		}
		return c.SExt(a.a, w)
	}
	if a.op == OpZExt && lo >= int(a.a.w) {
		return c.BV(0, w)
	}
	if a.op == OpExtract {
		return c.Extract(a.a, int(a.k)+lo, w)
	}
	if a.op == OpIte && a.b.IsConst() && a.c.IsConst() {
		return c.Ite(a.a, c.BV(a.b.k>>uint(lo), w), c.BV(a.c.k>>uint(lo), w))
	}
	return c.mk(OpExtract, uint8(w), uint64(lo), a, nil, nil, "")
}

// Resize converts a to width w, zero- or sign-extending as told.
func (c *Ctx) Resize(a *Term, w int, signed bool) *Term {
	switch {
	case int(a.w) == w:
		return a
	case int(a.w) > w:
		return c.Extract(a, 0, w)
	case signed:
		return c.SExt(a, w)
	default:
		return c.ZExt(a, w)
	}
}

// BoolToBV: ite(b, 1, 0)
func (c *Ctx) BoolToBV(b *Term, w int) *Term {
	return c.Ite(b, c.BV(1, w), c.BV(0, w))
}

// ---- arrays (index BitVec 64) ----

func (c *Ctx) ConstArr(k uint64, w int) *Term {
	return c.mk(OpConstArr, uint8(w), k&mask(uint8(w)), nil, nil, nil, "")
}

func (c *Ctx) Store(a, idx, v *Term) *Term {
	if !a.arr || idx.w != 64 || v.w != a.w {
		panic("Store: bad sorts")
	}
	return c.mk(OpStore, a.w, 0, a, idx, v, "")
}

func (c *Ctx) Select(a, idx *Term) *Term {
	if !a.arr || idx.w != 64 {
		panic("Select: bad sorts")
	}
	for {
		switch a.op {
		case OpConstArr:
			return c.BV(a.k, int(a.w))
		case OpStore:
			if a.b == idx {
				return a.c
			}
			if a.b.IsConst() && idx.IsConst() {
				// distinct constants: look through
				a = a.a
				continue
			}
		}
		break
	}
	return c.mk(OpSelect, a.w, 0, a, idx, nil, "")
}

// evalSelect evaluates select(a, i) under a model by walking the store chain.
func (c *Ctx) evalSelect(a *Term, i uint64, m Model) uint64 {
	for {
		switch a.op {
		case OpConstArr:
			return a.k
		case OpStore:
			if c.Eval(a.b, m) == i {
				return c.Eval(a.c, m)
			}
			a = a.a
		default:
			panic("evalSelect: not an array term")
		}
	}
}

// ---- evaluation under a model ----

type Model map[string]uint64

// ufTable gives deterministic concrete values to UF applications during evaluation:
// consistent (same args -> same value) which is all a model needs.
func ufValue(name string, w uint8, args ...uint64) uint64 {
	h := uint64(1469598103934665603)
	for i := 0; i < len(name); i++ {
		h ^= uint64(name[i])
		h *= 1099511628211
	}
	for _, a := range args {
		h ^= a
		h *= 1099511628211
	}
	return h & mask(w)
}

func (c *Ctx) NewEpoch() {
	c.evalEpoch++
	if c.evalEpoch == 0 {
		for i := range c.evalStamp {
			c.evalStamp[i] = 0
		}
		c.evalEpoch = 1
	}
}

// Eval evaluates t under m (missing variables are 0).  Call NewEpoch when m changes.
func (c *Ctx) Eval(t *Term, m Model) uint64 {
	if t.op == OpConst {
		return t.k
	}
	if n := len(c.terms); len(c.evalStamp) < n {
		ns := make([]uint32, n+n/2+16)
		copy(ns, c.evalStamp)
		c.evalStamp = ns
		nv := make([]uint64, n+n/2+16)
		copy(nv, c.evalVal)
		c.evalVal = nv
	}
	if c.evalStamp[t.id] == c.evalEpoch {
		return c.evalVal[t.id]
	}
	var v uint64
	switch t.op {
	case OpVar:
		v = m[t.name] & maskOrBool(t.w)
	case OpNot:
		v = 1 - c.Eval(t.a, m)
	case OpAnd:
		if c.Eval(t.a, m) == 1 && c.Eval(t.b, m) == 1 {
			v = 1
		}
	case OpOr:
		if c.Eval(t.a, m) == 1 || c.Eval(t.b, m) == 1 {
			v = 1
		}
	case OpEq:
		if c.Eval(t.a, m) == c.Eval(t.b, m) {
			v = 1
		}
	case OpUlt:
		if c.Eval(t.a, m) < c.Eval(t.b, m) {
			v = 1
		}
	case OpUle:
		if c.Eval(t.a, m) <= c.Eval(t.b, m) {
			v = 1
		}
	case OpSlt:
		if sext(c.Eval(t.a, m), t.a.w) < sext(c.Eval(t.b, m), t.b.w) {
			v = 1
		}
	case OpSle:
		if sext(c.Eval(t.a, m), t.a.w) <= sext(c.Eval(t.b, m), t.b.w) {
			v = 1
		}
	case OpIte:
		if c.Eval(t.a, m) == 1 {
			v = c.Eval(t.b, m)
		} else {
			v = c.Eval(t.c, m)
		}
	case OpBNot:
		v = ^c.Eval(t.a, m) & mask(t.w)
	case OpNeg:
		v = -c.Eval(t.a, m) & mask(t.w)
	case OpZExt:
		v = c.Eval(t.a, m)
	case OpSExt:
		v = uint64(sext(c.Eval(t.a, m), t.a.w)) & mask(t.w)
	case OpExtract:
		v = (c.Eval(t.a, m) >> t.k) & mask(t.w)
	case OpSelect:
		v = c.evalSelect(t.a, c.Eval(t.b, m), m)
	case OpConstArr, OpStore:
		panic("Eval of array-sorted term")
	case OpUF:
		var args []uint64
		for _, a := range []*Term{t.a, t.b, t.c} {
			if a != nil {
				args = append(args, c.Eval(a, m))
			}
		}
		key := ufKey(t.name, args)
		if mv, ok := m[key]; ok {
			v = mv & maskOrBool(t.w)
		} else {
			v = ufValue(t.name, t.w, args...)
			if t.w == 0 {
				v &= 1
			}
		}
	default:
		v, _ = foldBin(t.op, c.Eval(t.a, m), c.Eval(t.b, m), t.w)
	}
	c.evalStamp[t.id] = c.evalEpoch
	c.evalVal[t.id] = v
	return v
}

func ufKey(name string, args []uint64) string {
	var sb strings.Builder
	sb.WriteString("@")
	sb.WriteString(name)
	for _, a := range args {
		fmt.Fprintf(&sb, ",%d", a)
	}
	return sb.String()
}

func maskOrBool(w uint8) uint64 {
	if w == 0 {
		return 1
	}
	return mask(w)
}

// ---- SMT-LIB printing ----

func sortOf(t *Term) string {
	if t.arr {
		return fmt.Sprintf("(Array (_ BitVec 64) (_ BitVec %d))", t.w)
	}
	return sortStr(t.w)
}

func sortStr(w uint8) string {
	if w == 0 {
		return "Bool"
	}
	return fmt.Sprintf("(_ BitVec %d)", w)
}

func constStr(t *Term) string {
	if t.w == 0 {
		if t.k == 1 {
			return "true"
		}
		return "false"
	}
	if t.w%4 == 0 {
		return fmt.Sprintf("#x%0*x", int(t.w)/4, t.k)
	}
	return fmt.Sprintf("#b%0*b", int(t.w), t.k)
}

// ref returns how a term is referred to inside another expression.
func ref(t *Term) string {
	switch t.op {
	case OpConst:
		return constStr(t)
	case OpVar:
		return t.name
	}
	return fmt.Sprintf("t%d", t.id)
}

// body returns the defining expression of a non-leaf term.
func body(t *Term) string {
	switch t.op {
	case OpNot, OpBNot, OpNeg:
		return fmt.Sprintf("(%s %s)", opNames[t.op], ref(t.a))
	case OpIte:
		return fmt.Sprintf("(ite %s %s %s)", ref(t.a), ref(t.b), ref(t.c))
	case OpZExt:
		return fmt.Sprintf("((_ zero_extend %d) %s)", int(t.w)-int(t.a.w), ref(t.a))
	case OpSExt:
		return fmt.Sprintf("((_ sign_extend %d) %s)", int(t.w)-int(t.a.w), ref(t.a))
	case OpExtract:
		return fmt.Sprintf("((_ extract %d %d) %s)", int(t.k)+int(t.w)-1, t.k, ref(t.a))
	case OpConstArr:
		return fmt.Sprintf("((as const (Array (_ BitVec 64) (_ BitVec %d))) %s)", t.w, constStr(&Term{op: OpConst, w: t.w, k: t.k}))
	case OpStore:
		return fmt.Sprintf("(store %s %s %s)", ref(t.a), ref(t.b), ref(t.c))
	case OpSelect:
		return fmt.Sprintf("(select %s %s)", ref(t.a), ref(t.b))
	case OpUF:
		s := "(" + t.name
		for _, a := range []*Term{t.a, t.b, t.c} {
			if a != nil {
				s += " " + ref(a)
			}
		}
		return s + ")"
	}
	return fmt.Sprintf("(%s %s %s)", opNames[t.op], ref(t.a), ref(t.b))
}

// String renders a term fully (for diagnostics; may be large).
func (t *Term) String() string {
	switch t.op {
	case OpConst:
		if t.w == 0 {
			return constStr(t)
		}
		return fmt.Sprintf("%d:%d", t.k, t.w)
	case OpVar:
		return t.name
	}
	var sb strings.Builder
	t.str(&sb, 0)
	return sb.String()
}

func (t *Term) str(sb *strings.Builder, depth int) {
	if t.op == OpConst || t.op == OpVar {
		sb.WriteString(t.String())
		return
	}
	if depth > 6 {
		fmt.Fprintf(sb, "t%d", t.id)
		return
	}
	sb.WriteString("(")
	switch t.op {
	case OpZExt:
		fmt.Fprintf(sb, "zext%d", t.w)
	case OpSExt:
		fmt.Fprintf(sb, "sext%d", t.w)
	case OpExtract:
		fmt.Fprintf(sb, "extract[%d+%d]", t.k, t.w)
	case OpUF:
		sb.WriteString(t.name)
	case OpConstArr:
		fmt.Fprintf(sb, "constarr %d", t.k)
	case OpStore:
		sb.WriteString("store")
	case OpSelect:
		sb.WriteString("select")
	default:
		sb.WriteString(opNames[t.op])
	}
	for _, a := range []*Term{t.a, t.b, t.c} {
		if a != nil {
			sb.WriteString(" ")
			a.str(sb, depth+1)
		}
	}
	sb.WriteString(")")
}
