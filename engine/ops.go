package main

import (
	"fmt"
	"go/token"
	"go/types"
	"math"
	"unicode/utf8"

	"golang.org/x/tools/go/ssa"
)

func (it *Interp) unop(instr *ssa.UnOp, x Value) Value {
	c := it.ctx
	switch instr.Op {
	case token.MUL: // load
		return it.load(x)
	case token.ARROW:
		v, ok := it.chanRecv(x.(*Chan))
		if instr.CommaOk {
			return Tuple{v, c.Bool(ok)}
		}
		return v
	case token.SUB:
		switch x := x.(type) {
		case *Term:
			return c.Neg(x)
		case float64:
			return -x
		}
	case token.NOT:
		return c.Not(x.(*Term))
	case token.XOR:
		return c.BNot(x.(*Term))
	}
	panic(fmt.Sprintf("unop %v on %T", instr.Op, x))
}

func (it *Interp) binop(op token.Token, t types.Type, x, y Value) Value {
	c := it.ctx
	switch xv := x.(type) {
	case *Term:
		yv, ok := y.(*Term)
		if !ok {
			break
		}
		signed := isSigned(t)
		if xv.w == 0 { // bool
			switch op {
			case token.EQL:
				return c.Eq(xv, yv)
			case token.NEQ:
				return c.Not(c.Eq(xv, yv))
			case token.AND, token.LAND:
				return c.And(xv, yv)
			case token.OR, token.LOR:
				return c.Or(xv, yv)
			}
			break
		}
		switch op {
		case token.ADD:
			return c.Bin(OpAdd, xv, yv)
		case token.SUB:
			return c.Bin(OpSub, xv, yv)
		case token.MUL:
			return c.Bin(OpMul, xv, yv)
		case token.QUO, token.REM:
			if yv.IsConst() {
				if yv.k == 0 {
					panic(it.throw("integer divide by zero"))
				}
			} else if it.branch(c.Eq(yv, c.BV(0, int(yv.w)))) {
				panic(it.throw("integer divide by zero"))
			}
			switch {
			case op == token.QUO && signed:
				return c.Bin(OpSDiv, xv, yv)
			case op == token.QUO:
				return c.Bin(OpUDiv, xv, yv)
			case signed:
				return c.Bin(OpSRem, xv, yv)
			default:
				return c.Bin(OpURem, xv, yv)
			}
		case token.AND:
			return c.Bin(OpBAnd, xv, yv)
		case token.OR:
			return c.Bin(OpBOr, xv, yv)
		case token.XOR:
			return c.Bin(OpBXor, xv, yv)
		case token.AND_NOT:
			return c.Bin(OpBAnd, xv, c.BNot(yv))
		case token.SHL, token.SHR:
			// shift count: any unsigned/signed int type; resize to x's width saturating
			sh := it.shiftCount(yv, int(xv.w))
			switch {
			case op == token.SHL:
				return c.Bin(OpShl, xv, sh)
			case signed:
				return c.Bin(OpAShr, xv, sh)
			default:
				return c.Bin(OpLShr, xv, sh)
			}
		case token.EQL:
			return c.Eq(xv, yv)
		case token.NEQ:
			return c.Not(c.Eq(xv, yv))
		case token.LSS:
			if signed {
				return c.Slt(xv, yv)
			}
			return c.Ult(xv, yv)
		case token.LEQ:
			if signed {
				return c.Sle(xv, yv)
			}
			return c.Ule(xv, yv)
		case token.GTR:
			if signed {
				return c.Slt(yv, xv)
			}
			return c.Ult(yv, xv)
		case token.GEQ:
			if signed {
				return c.Sle(yv, xv)
			}
			return c.Ule(yv, xv)
		}
	case float64:
		yv := y.(float64)
		f32 := false
		if b, ok := under(t).(*types.Basic); ok && b.Kind() == types.Float32 {
			f32 = true
		}
		r := func(v float64) Value {
			if f32 {
				return float64(float32(v))
			}
			return v
		}
		switch op {
		case token.ADD:
			return r(xv + yv)
		case token.SUB:
			return r(xv - yv)
		case token.MUL:
			return r(xv * yv)
		case token.QUO:
			return r(xv / yv)
		case token.EQL:
			return c.Bool(xv == yv)
		case token.NEQ:
			return c.Bool(xv != yv)
		case token.LSS:
			return c.Bool(xv < yv)
		case token.LEQ:
			return c.Bool(xv <= yv)
		case token.GTR:
			return c.Bool(xv > yv)
		case token.GEQ:
			return c.Bool(xv >= yv)
		}
	case string, SymStr:
		switch op {
		case token.ADD:
			if xs, ok := x.(string); ok {
				if ys, ok := y.(string); ok {
					return xs + ys
				}
			}
			return mkStr(append(append([]*Term{}, c.strBytes(x)...), c.strBytes(y)...))
		case token.EQL:
			return c.strEq(x, y)
		case token.NEQ:
			return c.Not(c.strEq(x, y))
		case token.LSS:
			return c.strLess(x, y)
		case token.GTR:
			return c.strLess(y, x)
		case token.LEQ:
			return c.Not(c.strLess(y, x))
		case token.GEQ:
			return c.Not(c.strLess(x, y))
		}
	}
	switch op {
	case token.EQL:
		return it.equals(t, x, y)
	case token.NEQ:
		return it.ctx.Not(it.equals(t, x, y))
	}
	panic(fmt.Sprintf("binop %v on %T, %T", op, x, y))
}

// shiftCount converts a shift count of any width to width w with saturation (counts
// >= w give 0 / sign fill as in Go; SMT shifts already do that at equal widths).
func (it *Interp) shiftCount(y *Term, w int) *Term {
	c := it.ctx
	if int(y.w) == w {
		return y
	}
	if int(y.w) < w {
		return c.ZExt(y, w)
	}
	// narrower target: saturate
	if y.IsConst() {
		if y.k >= uint64(w) {
			return c.BV(uint64(w), w)
		}
		return c.BV(y.k, w)
	}
	big := c.Ule(c.BV(uint64(w), int(y.w)), y)
	return c.Ite(big, c.BV(uint64(w), w), c.Extract(y, 0, w))
}

func (it *Interp) conv(tdst, tsrc types.Type, x Value) Value {
	c := it.ctx
	ut_src := under(tsrc)
	ut_dst := under(tdst)
	switch ut_src := ut_src.(type) {
	case *types.Pointer:
		// *T -> unsafe.Pointer or *T -> *U (same underlying)
		return x
	case *types.Slice:
		// []byte -> string, []rune -> string
		s := x.(Slice)
		if eb, ok := under(ut_src.Elem()).(*types.Basic); ok {
			switch eb.Kind() {
			case types.Uint8:
				b := make([]*Term, len(s))
				for i, v := range s {
					b[i] = v.(*Term)
				}
				return mkStr(b)
			case types.Int32:
				var rs []rune
				for _, v := range s {
					rs = append(rs, rune(it.concretizeInt(v.(*Term), true)))
				}
				return string(rs)
			}
		}
	case *types.Basic:
		if ut_src.Kind() == types.UnsafePointer {
			return x
		}
		// string -> []byte, []rune
		if ut_src.Info()&types.IsString != 0 {
			if ds, ok := ut_dst.(*types.Slice); ok {
				switch under(ds.Elem()).(*types.Basic).Kind() {
				case types.Uint8:
					b := c.strBytes(x)
					s := make(Slice, len(b))
					for i, t := range b {
						s[i] = t
					}
					return s
				case types.Int32:
					str, ok := x.(string)
					if !ok {
						panic(it.unsupported("[]rune(symbolic string)"))
					}
					var s Slice
					for _, r := range str {
						s = append(s, c.BV(uint64(r), 32))
					}
					if s == nil {
						s = Slice{}
					}
					return s
				}
			}
			if db, ok := ut_dst.(*types.Basic); ok && db.Info()&types.IsString != 0 {
				return x
			}
		}
		db, ok := ut_dst.(*types.Basic)
		if !ok {
			break
		}
		if db.Kind() == types.UnsafePointer {
			return x
		}
		// numeric conversions
		if sw, ssigned, sok := intWidth(ut_src); sok && sw > 0 {
			xv := x.(*Term)
			if dw, _, dok := intWidth(db); dok && dw > 0 {
				return c.Resize(xv, dw, ssigned)
			}
			if db.Info()&types.IsString != 0 {
				r := it.concretizeInt(xv, ssigned)
				return string(rune(r))
			}
			if db.Info()&types.IsFloat != 0 {
				if !xv.IsConst() {
					panic(it.unsupported("int->float conversion of symbolic value"))
				}
				var f float64
				if ssigned {
					f = float64(sext(xv.k, xv.w))
				} else {
					f = float64(xv.k)
				}
				if db.Kind() == types.Float32 {
					f = float64(float32(f))
				}
				return f
			}
		}
		if ut_src.Info()&types.IsFloat != 0 {
			if sf, ok := x.(SecFloat); ok {
				// uint32(d.Seconds()): floor(d / 1e9) for 0 <= d (float rounding above 2^22 s is outside the claim)
				if dw, _, dok := intWidth(db); dok && dw > 0 {
					q := c.Bin(OpSDiv, sf.ns, c.BV(1e9, 64))
					return c.Resize(q, dw, true)
				}
				if db.Info()&types.IsFloat != 0 {
					return sf
				}
			}
			f := x.(float64)
			if dw, dsigned, dok := intWidth(db); dok && dw > 0 {
				if dsigned {
					return c.BV(uint64(int64(f)), dw)
				}
				if f < 0 {
					return c.BV(uint64(int64(f)), dw)
				}
				if f >= math.Exp2(63) {
					return c.BV(uint64(f), dw)
				}
				return c.BV(uint64(f), dw)
			}
			if db.Info()&types.IsFloat != 0 {
				if db.Kind() == types.Float32 {
					return float64(float32(f))
				}
				return f
			}
		}
	}
	panic(it.unsupported(fmt.Sprintf("conversion %v -> %v (%T)", tsrc, tdst, x)))
}

// concretizeInt forks until the term has a single value on this path and returns it.
func (it *Interp) concretizeInt(t *Term, signed bool) int64 {
	if t.IsConst() {
		if signed {
			return sext(t.k, t.w)
		}
		return int64(t.k)
	}
	c := it.ctx
	for n := 0; ; n++ {
		if n > it.eng.cfg.MaxConcretize {
			panic(&abort{"unwind", fmt.Sprintf("concretization of %v exceeded %d values", t, it.eng.cfg.MaxConcretize)})
		}
		var v uint64
		if it.depth < it.prefixLen {
			v = it.trail[it.depth].val
		} else {
			v = it.modelValue(t)
		}
		if it.branchVal(c.Eq(t, c.BV(v, int(t.w))), v) {
			if signed {
				return sext(v, t.w)
			}
			return int64(v)
		}
	}
}

func (it *Interp) callBuiltin(caller *frame, pos token.Pos, fn *ssa.Builtin, args []Value) Value {
	c := it.ctx
	switch fn.Name() {
	case "append":
		if len(args) == 1 {
			return args[0]
		}
		var s1 Slice
		switch a := args[1].(type) {
		case string, SymStr:
			for _, b := range c.strBytes(a) {
				s1 = append(s1, b)
			}
		case Slice:
			s1 = a
		}
		s0 := args[0].(Slice)
		if len(s1) == 0 {
			return s0
		}
		// Go semantics: append in place when capacity allows
		if len(s0)+len(s1) <= cap(s0) {
			r := s0[:len(s0)+len(s1)]
			for i, v := range s1 {
				r[len(s0)+i] = copyVal(v)
			}
			return r
		}
		ncap := 2 * cap(s0)
		if ncap < len(s0)+len(s1) {
			ncap = len(s0) + len(s1)
		}
		r := make(Slice, len(s0)+len(s1), ncap)
		copy(r, s0)
		for i, v := range s1 {
			r[len(s0)+i] = copyVal(v)
		}
		// fill spare capacity with zero values (needed when later resliced)
		if ncap > len(r) {
			var z Value
			if len(r) > 0 {
				z = zeroLike(c, r[0])
			}
			full := r[:ncap]
			for i := len(r); i < ncap; i++ {
				full[i] = copyVal(z)
			}
		}
		return r
	case "copy":
		dst := args[0].(Slice)
		var n int
		switch src := args[1].(type) {
		case Slice:
			n = len(src)
			if len(dst) < n {
				n = len(dst)
			}
			// handle overlap like memmove
			tmp := make([]Value, n)
			for i := 0; i < n; i++ {
				tmp[i] = copyVal(src[i])
			}
			copy(dst, tmp)
		case string, SymStr:
			b := c.strBytes(src)
			n = len(b)
			if len(dst) < n {
				n = len(dst)
			}
			for i := 0; i < n; i++ {
				dst[i] = b[i]
			}
		}
		return c.BV(uint64(n), 64)
	case "close":
		it.chanClose(args[0].(*Chan))
		return nil
	case "delete":
		it.mapDelete(args[0].(*Map), args[1])
		return nil
	case "clear":
		switch a := args[0].(type) {
		case *Map:
			if a != nil {
				for i := range a.keys {
					a.live[i] = false
				}
				a.n, a.symKey = 0, 0
				a.index = map[string]int{}
			}
		case Slice:
			if len(a) > 0 {
				z := zeroLike(c, a[0])
				for i := range a {
					a[i] = copyVal(z)
				}
			}
		}
		return nil
	case "print", "println":
		return nil
	case "len":
		switch x := args[0].(type) {
		case string:
			return c.BV(uint64(len(x)), 64)
		case SymStr:
			return c.BV(uint64(len(x.b)), 64)
		case Array:
			return c.BV(uint64(len(x)), 64)
		case *Value:
			if x == nil {
				return c.BV(0, 64)
			}
			return c.BV(uint64(len((*x).(Array))), 64)
		case Slice:
			return c.BV(uint64(len(x)), 64)
		case *Map:
			if x == nil {
				return c.BV(0, 64)
			}
			return c.BV(uint64(x.Len()), 64)
		case *Chan:
			if x == nil {
				return c.BV(0, 64)
			}
			return c.BV(uint64(len(x.buf)), 64)
		}
		panic(fmt.Sprintf("len of %T", args[0]))
	case "cap":
		switch x := args[0].(type) {
		case Array:
			return c.BV(uint64(len(x)), 64)
		case *Value:
			if x == nil {
				return c.BV(0, 64)
			}
			return c.BV(uint64(len((*x).(Array))), 64)
		case Slice:
			return c.BV(uint64(cap(x)), 64)
		case *Chan:
			if x == nil {
				return c.BV(0, 64)
			}
			return c.BV(uint64(x.cap), 64)
		}
		panic(fmt.Sprintf("cap of %T", args[0]))
	case "min", "max":
		r := args[0]
		for _, a := range args[1:] {
			switch rv := r.(type) {
			case *Term:
				av := a.(*Term)
				signed := true
				if sig, ok := fn.Type().(*types.Signature); ok && sig.Params().Len() > 0 {
					signed = isSigned(sig.Params().At(0).Type())
				}
				var lt *Term
				if signed {
					lt = c.Slt(av, rv)
				} else {
					lt = c.Ult(av, rv)
				}
				if fn.Name() == "max" {
					lt = c.Not(c.Or(lt, c.Eq(av, rv)))
					r = c.Ite(lt, rv, av)
					// max: pick a if a>r
					if signed {
						r = c.Ite(c.Slt(rv, av), av, rv)
					} else {
						r = c.Ite(c.Ult(rv, av), av, rv)
					}
				} else {
					r = c.Ite(lt, av, rv)
				}
			case float64:
				if fn.Name() == "min" {
					r = math.Min(rv, a.(float64))
				} else {
					r = math.Max(rv, a.(float64))
				}
			default:
				panic(it.unsupported("min/max on " + fmt.Sprintf("%T", r)))
			}
		}
		return r
	case "panic":
		panic(&targetPanic{args[0]})
	case "recover":
		return it.doRecover(caller)
	case "ssa:wrapnilchk":
		recv := args[0]
		if p, ok := recv.(*Value); ok && p == nil {
			panic(it.throw(fmt.Sprintf("value method %s.%s called using nil pointer", strOf(args[1]), strOf(args[2]))))
		}
		return recv
	case "ssa:deferstack":
		return &caller.defers
	case "String": // unsafe.String(ptr *byte, len)
		p := args[0]
		n := it.concretizeInt(args[1].(*Term), true)
		cells := it.cellsFrom(p, int(n))
		b := make([]*Term, n)
		for i := range b {
			b[i] = cells[i].(*Term)
		}
		return mkStr(b)
	case "StringData", "SliceData":
		switch x := args[0].(type) {
		case Slice:
			if cap(x) == 0 {
				return (*Value)(nil)
			}
			return &x[:1][0]
		case string, SymStr:
			b := c.strBytes(x)
			if len(b) == 0 {
				return (*Value)(nil)
			}
			cells := make(Slice, len(b))
			for i, t := range b {
				cells[i] = t
			}
			it.cellOwner[&cells[0]] = cells
			return &cells[0]
		}
	case "Slice": // unsafe.Slice(ptr, len)
		n := it.concretizeInt(args[1].(*Term), true)
		if n == 0 {
			return Slice{}
		}
		return Slice(it.cellsFrom(args[0], int(n)))
	}
	panic(it.unsupported("builtin " + fn.Name()))
}

// cellsFrom recovers the cell run starting at pointer p (only for pointers that were
// produced by SliceData/StringData or IndexAddr on a known slice).
func (it *Interp) cellsFrom(p Value, n int) []Value {
	pv, ok := p.(*Value)
	if !ok || pv == nil {
		if n == 0 {
			return nil
		}
		panic(it.unsupported("unsafe pointer arithmetic on unknown pointer"))
	}
	if cells, ok := it.cellOwner[pv]; ok && len(cells) >= n {
		return cells[:n]
	}
	if n == 1 {
		return []Value{*pv}
	}
	panic(it.unsupported("unsafe.String/Slice on untracked pointer"))
}

func strOf(v Value) string {
	if s, ok := v.(string); ok {
		return s
	}
	return fmt.Sprint(v)
}

// zeroLike produces a zero value shaped like v (used to pad capacity in append).
func zeroLike(c *Ctx, v Value) Value {
	switch v := v.(type) {
	case *Term:
		if v.w == 0 {
			return c.False
		}
		return c.BV(0, int(v.w))
	case float64:
		return float64(0)
	case string, SymStr:
		return ""
	case *Value:
		return (*Value)(nil)
	case Struct:
		n := make(Struct, len(v))
		for i := range v {
			n[i] = zeroLike(c, v[i])
		}
		return n
	case Array:
		n := make(Array, len(v))
		for i := range v {
			n[i] = zeroLike(c, v[i])
		}
		return n
	case Iface:
		return Iface{}
	case Slice:
		return Slice(nil)
	case *Map:
		return (*Map)(nil)
	case *Chan:
		return (*Chan)(nil)
	case *ssa.Function, *Closure:
		return (*ssa.Function)(nil)
	}
	panic(fmt.Sprintf("zeroLike %T", v))
}

var _ = utf8.RuneError
