package main

// Cooperative goroutines, channels, select, virtual clock and timers.
// Each interpreted goroutine is hosted by a real goroutine; exactly one runs at a
// time (baton passing), so the interpreter itself is single-threaded per path.
// Schedule: a goroutine runs until it blocks (or the harness calls zzrt.Sched /
// zzrt.Yield); then the runnable goroutine with the lowest id runs.  This explores
// ONE deterministic family of schedules, never all schedules (see DESIGN §4).

import (
	"fmt"
	"go/token"
	"go/types"

	"golang.org/x/tools/go/ssa"
)

type G struct {
	id      int
	resume  chan struct{}
	exited  chan struct{}
	done    bool
	kill    bool
	ready   func() bool // non-nil while blocked
	started bool
	what    string
}

type Chan struct {
	id     int
	cap    int
	buf    []Value
	closed bool
	elemT  types.Type
	recvq  []*waiter
	sendq  []*waiter
}

type selOp struct {
	g      *G
	fired  int // -1 while waiting
	val    Value
	recvOk bool
}

type waiter struct {
	op      *selOp
	caseIdx int
	val     Value // for send
}

type vtimer struct {
	when    *Term // absolute ns
	ch      *Chan
	fn      Value // AfterFunc
	stopped bool
	fired   bool
	period  *Term
	obj     *Value // the *time.Timer cell
}

func (it *Interp) newG(what string) *G {
	g := &G{id: len(it.gs), resume: make(chan struct{}), exited: make(chan struct{}), what: what}
	it.gs = append(it.gs, g)
	return g
}

// runMain runs the harness function on goroutine 0 (hosted by the worker goroutine).
func (it *Interp) runMain() {
	g := it.newG("main")
	g.started = true
	it.cur = g
	it.mainG = g
	it.call(nil, token.NoPos, it.hs.fn, nil)
	if it.pendingA != nil {
		panic(it.pendingA)
	}
}

func (it *Interp) spawn(fn Value, args []Value, pos token.Pos) {
	g := it.newG(fmt.Sprint(fnName(fn)))
	if len(it.gs) > 64 {
		panic(&abort{"unwind", "more than 64 goroutines"})
	}
	go func() {
		defer close(g.exited)
		<-g.resume
		if g.kill {
			g.done = true
			return
		}
		g.started = true
		func() {
			defer func() {
				r := recover()
				if r == nil {
					return
				}
				switch r := r.(type) {
				case *abort:
					if r.kind != "kill" && it.pendingA == nil {
						it.pendingA = r
					}
				case *targetPanic:
					// uncaught panic in a goroutine crashes the program
					if it.pendingA == nil {
						it.pendingA = &abort{"gopanic", it.panicString(r.v)}
					}
				default:
					if it.pendingA == nil {
						it.pendingA = &abort{"internal", fmt.Sprintf("%v", r)}
					}
				}
			}()
			it.call(nil, pos, fn, args)
		}()
		g.done = true
		if g.kill {
			return
		}
		// hand the baton on
		if it.pendingA != nil {
			it.switchTo(it.mainG, false)
			return
		}
		next := it.pickRunnable(g)
		if next == nil {
			// everything else is blocked: report on main
			it.pendingA = &abort{"blocked", "all goroutines blocked: " + it.blockedSummary()}
			next = it.mainG
		}
		it.switchTo(next, false)
	}()
}

func fnName(fn Value) string {
	switch f := fn.(type) {
	case *ssa.Function:
		return f.String()
	case *Closure:
		return f.Fn.String()
	}
	return fmt.Sprintf("%T", fn)
}

// switchTo passes the baton to g; when wait is true the caller parks until resumed.
func (it *Interp) switchTo(g *G, wait bool) {
	me := it.cur
	it.cur = g
	savedFrame := it.curFrame
	g.resume <- struct{}{}
	if wait {
		<-me.resume
		it.cur = me
		it.curFrame = savedFrame
		if me.kill {
			panic(&abort{"kill", ""})
		}
		if it.pendingA != nil && me == it.mainG {
			a := it.pendingA
			panic(a)
		}
	}
}

func (it *Interp) pickRunnable(except *G) *G {
	for _, g := range it.gs {
		if g == except || g.done {
			continue
		}
		if g.ready == nil || g.ready() {
			return g
		}
	}
	return nil
}

func (it *Interp) stackSummary() string {
	where := ""
	n := 0
	for f := it.curFrame; f != nil && n < 10; f = f.caller {
		where += " < " + f.fn.String()
		n++
	}
	return where
}

func (it *Interp) blockedSummary() string {
	s := ""
	for _, g := range it.gs {
		if !g.done {
			s += fmt.Sprintf("[g%d %s] ", g.id, g.what)
		}
	}
	return s
}

// blockUntil parks the current goroutine until ready() holds, running others.
func (it *Interp) blockUntil(what string, ready func() bool) {
	if ready() {
		return
	}
	me := it.cur
	me.ready = ready
	defer func() { me.ready = nil }()
	for !ready() {
		next := it.pickRunnable(me)
		if next == nil {
			// try virtual timers
			if it.fireEarliestTimer() {
				continue
			}
			if me != it.mainG {
				it.pendingA = &abort{"blocked", what + "; all goroutines blocked: " + it.blockedSummary()}
				it.switchTo(it.mainG, true)
				continue
			}
			panic(&abort{"blocked", what + "; all goroutines blocked: " + it.blockedSummary() + " at" + it.stackSummary()})
		}
		it.switchTo(next, true)
	}
}

// yield lets every other runnable goroutine run until it blocks.
func (it *Interp) yield() {
	me := it.cur
	// run the other goroutines until none of them can move (bounded: a spinning goroutine must not hang the path)
	for pass := 0; pass < 64; pass++ {
		moved := false
		for _, g := range it.gs {
			if g == me || g.done {
				continue
			}
			if g.ready == nil || g.ready() {
				it.switchTo(g, true)
				moved = true
			}
		}
		if !moved {
			return
		}
	}
}

func (it *Interp) killGoroutines() {
	for _, g := range it.gs {
		if g == it.mainG || g.done {
			continue
		}
		select {
		case <-g.exited:
			continue
		default:
		}
		g.kill = true
		g.resume <- struct{}{}
		<-g.exited
	}
}

// ---- channels ----

func (it *Interp) chanSend(ch *Chan, v Value) {
	if ch == nil {
		it.blockUntil("send on nil channel", func() bool { return false })
	}
	if ch.closed {
		panic(it.throw("send on closed channel"))
	}
	v = copyVal(v)
	if w := ch.firstWaiter(&ch.recvq); w != nil {
		w.op.fired, w.op.val, w.op.recvOk = w.caseIdx, v, true
		return
	}
	if len(ch.buf) < ch.cap {
		ch.buf = append(ch.buf, v)
		return
	}
	op := &selOp{g: it.cur, fired: -1}
	ch.sendq = append(ch.sendq, &waiter{op: op, val: v})
	it.blockUntil(fmt.Sprintf("chan send (chan#%d)", ch.id), func() bool { return op.fired >= 0 || ch.closed })
	if op.fired < 0 && ch.closed {
		panic(it.throw("send on closed channel"))
	}
}

func (ch *Chan) firstWaiter(q *[]*waiter) *waiter {
	for len(*q) > 0 {
		w := (*q)[0]
		*q = (*q)[1:]
		if w.op.fired < 0 {
			return w
		}
	}
	return nil
}

func (ch *Chan) hasWaiter(q []*waiter) bool {
	for _, w := range q {
		if w.op.fired < 0 {
			return true
		}
	}
	return false
}

func (it *Interp) tryRecv(ch *Chan) (Value, bool, bool) {
	if len(ch.buf) > 0 {
		v := ch.buf[0]
		ch.buf = ch.buf[1:]
		if w := ch.firstWaiter(&ch.sendq); w != nil {
			ch.buf = append(ch.buf, w.val)
			w.op.fired = w.caseIdx
		}
		return v, true, true
	}
	if w := ch.firstWaiter(&ch.sendq); w != nil {
		w.op.fired = w.caseIdx
		return w.val, true, true
	}
	if ch.closed {
		return it.ctx.zero(ch.elemT), false, true
	}
	return nil, false, false
}

func (it *Interp) chanRecv(ch *Chan) (Value, bool) {
	if ch == nil {
		it.blockUntil("receive on nil channel", func() bool { return false })
	}
	if v, ok, done := it.tryRecv(ch); done {
		return v, ok
	}
	op := &selOp{g: it.cur, fired: -1}
	ch.recvq = append(ch.recvq, &waiter{op: op})
	it.blockUntil(fmt.Sprintf("chan receive (chan#%d)", ch.id), func() bool { return op.fired >= 0 || ch.closed || len(ch.buf) > 0 })
	if op.fired >= 0 {
		return op.val, op.recvOk
	}
	op.fired = 0 // withdraw
	v, ok, done := it.tryRecv(ch)
	if !done {
		panic("chanRecv: woke without value")
	}
	return v, ok
}

func (it *Interp) chanClose(ch *Chan) {
	if ch == nil {
		panic(it.throw("close of nil channel"))
	}
	if ch.closed {
		panic(it.throw("close of closed channel"))
	}
	ch.closed = true
	// wake receivers with zero value
	for {
		w := ch.firstWaiter(&ch.recvq)
		if w == nil {
			break
		}
		w.op.fired, w.op.val, w.op.recvOk = w.caseIdx, it.ctx.zero(ch.elemT), false
	}
}

func (it *Interp) selectOp(fr *frame, instr *ssa.Select) Value {
	c := it.ctx
	type cs struct {
		ch   *Chan
		send bool
		val  Value
	}
	cases := make([]cs, len(instr.States))
	for i, st := range instr.States {
		ch, _ := fr.get(st.Chan).(*Chan)
		cases[i] = cs{ch: ch, send: st.Dir == types.SendOnly}
		if st.Send != nil {
			cases[i].val = fr.get(st.Send)
		}
	}
	readyCases := func() []int {
		var r []int
		for i, cse := range cases {
			if cse.ch == nil {
				continue
			}
			if cse.send {
				if cse.ch.closed || len(cse.ch.buf) < cse.ch.cap || cse.ch.hasWaiter(cse.ch.recvq) {
					r = append(r, i)
				}
			} else if len(cse.ch.buf) > 0 || cse.ch.closed || cse.ch.hasWaiter(cse.ch.sendq) {
				r = append(r, i)
			}
		}
		return r
	}
	build := func(chosen int, recv Value, ok bool) Value {
		r := Tuple{c.BV(uint64(int64(chosen)), 64), c.Bool(ok)}
		for i, st := range instr.States {
			if st.Dir == types.RecvOnly {
				if i == chosen && recv != nil {
					r = append(r, recv)
				} else {
					r = append(r, c.zero(under(st.Chan.Type()).(*types.Chan).Elem()))
				}
			}
		}
		return r
	}
	fire := func(i int) Value {
		cse := cases[i]
		if cse.send {
			it.chanSend(cse.ch, cse.val)
			return build(i, nil, false)
		}
		v, ok, done := it.tryRecv(cse.ch)
		if !done {
			panic("select: ready case not ready")
		}
		return build(i, v, ok)
	}
	// first let timers that are already due fire (time.After in select)
	rc := readyCases()
	if len(rc) == 1 {
		return fire(rc[0])
	}
	if len(rc) > 1 {
		// Go picks uniformly at random: explore every choice
		k := it.freshInternal("sel", 8)
		it.assume(c.Ult(k, c.BV(uint64(len(rc)), 8)))
		return fire(rc[it.concretizeInt(k, false)])
	}
	if !instr.Blocking {
		return build(-1, nil, false)
	}
	// block on all cases
	op := &selOp{g: it.cur, fired: -1}
	for i, cse := range cases {
		if cse.ch == nil {
			continue
		}
		w := &waiter{op: op, caseIdx: i, val: copyVal(cse.val)}
		if cse.send {
			cse.ch.sendq = append(cse.ch.sendq, w)
		} else {
			cse.ch.recvq = append(cse.ch.recvq, w)
		}
	}
	it.blockUntil("select", func() bool { return op.fired >= 0 || len(readyCases()) > 0 })
	if op.fired >= 0 {
		if cases[op.fired].send {
			return build(op.fired, nil, false)
		}
		return build(op.fired, op.val, op.recvOk)
	}
	op.fired = 1 << 30 // withdraw the waiters
	rc = readyCases()
	return fire(rc[0])
}

// ---- virtual clock ----

// now returns the current virtual time.
func (it *Interp) now() *Term {
	if it.clock == nil {
		// like testing/synctest: the virtual clock starts at 2000-01-01T00:00:00Z and
		// moves only through zzrt.ClockAdvance / time.Sleep / timer firing.
		it.clock = it.ctx.BV(946684800_000000000, 64)
	}
	return it.clock
}

// advance moves the clock forward by d (a 64-bit term, assumed 0 <= d < 2^61).
func (it *Interp) advance(d *Term) {
	c := it.ctx
	now := it.now()
	it.assume(c.Ult(d, c.BV(1<<61, 64)))
	nt := c.Bin(OpAdd, now, d)
	it.assume(c.Ult(nt, c.BV(1<<62, 64)))
	it.clock = nt
}

// fireEarliestTimer: when everything is blocked, time passes until the earliest
// pending timer (decided by forking on the order of symbolic deadlines).
func (it *Interp) fireEarliestTimer() bool {
	c := it.ctx
	var best *vtimer
	for _, t := range it.timers {
		if t.stopped || t.fired {
			continue
		}
		if best == nil {
			best = t
			continue
		}
		if it.branch(c.Ult(t.when, best.when)) {
			best = t
		}
	}
	if best == nil {
		return false
	}
	it.fireTimer(best)
	return true
}

func (it *Interp) fireTimer(t *vtimer) {
	c := it.ctx
	t.fired = true
	now := it.now()
	// time moves to max(now, when)
	if it.branch(c.Ult(now, t.when)) {
		it.clock = t.when
	}
	if t.fn != nil {
		it.spawn(t.fn, nil, token.NoPos)
		return
	}
	if t.ch != nil && len(t.ch.buf) < t.ch.cap {
		it.chanSend(t.ch, it.timeValue(it.clock))
	} else if t.ch != nil {
		if w := t.ch.firstWaiter(&t.ch.recvq); w != nil {
			w.op.fired, w.op.val, w.op.recvOk = w.caseIdx, it.timeValue(it.clock), true
		}
	}
}

// dueTimers fires every timer whose deadline is <= now (forking on the comparison).
func (it *Interp) dueTimers() {
	c := it.ctx
	for _, t := range it.timers {
		if t.stopped || t.fired {
			continue
		}
		if it.branch(c.Ule(t.when, it.now())) {
			it.fireTimer(t)
		}
	}
}
