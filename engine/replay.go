package main

// Native replay: the same harness source is compiled with `go test -overlay` against
// /repo's working tree, with the native zzrt runtime feeding the solver's values.

import (
	"bufio"
	"bytes"
	"encoding/json"
	"flag"
	"fmt"
	"os"
	"os/exec"
	"path/filepath"
	"sort"
	"strings"
)

type replayVec struct {
	Idx      int            `json:"idx"`
	Harness  string         `json:"harness"`
	Inputs   []uint64       `json:"inputs"`
	Params   map[string]int `json:"params"`
	Synctest bool           `json:"synctest"`
}

type replayResult struct {
	Idx    int               `json:"idx"`
	Status string            `json:"status"` // ok | assert-failed | panic | assume-failed | exhausted | leftover
	Label  string            `json:"label"`
	Detail string            `json:"detail"`
	Obs    map[string]string `json:"obs"`
}

func (r *replayResult) confirms(v *Violation) bool {
	if r == nil {
		return false
	}
	if v.Label == "no-panic" {
		return r.Status == "panic"
	}
	return r.Status == "assert-failed" && r.Label == v.Label
}

func (r *replayResult) matchesWitness(v *Violation) bool {
	if r == nil || r.Status != "ok" {
		return false
	}
	for k, want := range v.Obs {
		got, ok := r.Obs[k]
		if !ok || got != want {
			r.Detail = fmt.Sprintf("observation %s: engine=%s native=%q", k, want, got)
			return false
		}
	}
	if len(r.Obs) != len(v.Obs) {
		r.Detail = fmt.Sprintf("observation count: engine=%d native=%d", len(v.Obs), len(r.Obs))
		return false
	}
	return true
}

func nativeReplay(cs *CheckSpec, specs map[string]*HarnessSpec, vecs []*Violation, work string) ([]*replayResult, error) {
	// group by package
	type grp struct {
		pkg   string
		funcs map[string]bool
		vecs  []replayVec
	}
	groups := map[string]*grp{}
	for i, v := range vecs {
		h := specs[v.Harness]
		pkg := cs.Pkg
		if h != nil && h.Pkg != "" {
			pkg = h.Pkg
		}
		g := groups[pkg]
		if g == nil {
			g = &grp{pkg: pkg, funcs: map[string]bool{}}
			groups[pkg] = g
		}
		g.funcs[v.Harness] = true
		tries := 1
		if h != nil && h.ReplayTries > 1 {
			tries = h.ReplayTries // code under test draws from math/rand: any reproducing run confirms
		}
		for t := 0; t < tries; t++ {
			g.vecs = append(g.vecs, replayVec{Idx: i, Harness: v.Harness, Inputs: v.Inputs, Params: v.Params, Synctest: h != nil && h.Synctest})
		}
	}
	out := make([]*replayResult, len(vecs))
	var pkgs []string
	for p := range groups {
		pkgs = append(pkgs, p)
	}
	sort.Strings(pkgs)
	for _, p := range pkgs {
		g := groups[p]
		res, err := runNative(cs, g.pkg, sortedKeys(g.funcs), g.vecs, work)
		if err != nil {
			return nil, err
		}
		for _, r := range res {
			rr := r
			prev := out[r.Idx]
			// with several tries keep the first result that confirms / matches
			if prev == nil || !(prev.confirms(vecs[r.Idx]) || (vecs[r.Idx].Label == "witness" && prev.matchesWitness(vecs[r.Idx]))) {
				out[r.Idx] = &rr
			}
		}
	}
	for i := range out {
		if out[i] == nil {
			out[i] = &replayResult{Idx: i, Status: "missing", Detail: "no result line from native run"}
		}
	}
	return out, nil
}

func runNative(cs *CheckSpec, pkgPath string, funcs []string, vecs []replayVec, work string) ([]replayResult, error) {
	rel := strings.TrimPrefix(strings.TrimPrefix(pkgPath, "github.com/DrmagicE/gmqtt"), "/")
	pkgDir := filepath.Join(repoDir, rel)
	// package name from an existing file
	pkgName, err := packageName(pkgDir, cs, rel)
	if err != nil {
		return nil, err
	}
	overlay := map[string]string{}
	for virt, real := range cs.Files {
		overlay[filepath.Join(repoDir, virt)] = absVerif(real)
	}
	overlay[filepath.Join(repoDir, "zzrt/zzrt.go")] = filepath.Join(verifDir, "harness/zzrt/zzrt_native.go")
	var tb strings.Builder
	fmt.Fprintf(&tb, "package %s\n\nimport (\n\t\"testing\"\n\t\"github.com/DrmagicE/gmqtt/zzrt\"\n)\n\nfunc TestZZReplay(t *testing.T) {\n\tzzrt.RunReplay(t, map[string]func(){\n", pkgName)
	for _, f := range funcs {
		fmt.Fprintf(&tb, "\t\t%q: %s,\n", f, f)
	}
	tb.WriteString("\t})\n}\n")
	tag := sanitize(pkgPath)
	testFile := filepath.Join(work, "zz_replay_"+tag+"_test.go")
	if err := os.WriteFile(testFile, []byte(tb.String()), 0o644); err != nil {
		return nil, err
	}
	overlay[filepath.Join(pkgDir, "zz_replay_test.go")] = testFile
	ovData, _ := json.Marshal(map[string]any{"Replace": overlay})
	ovFile := filepath.Join(work, "overlay_"+tag+".json")
	os.WriteFile(ovFile, ovData, 0o644)
	vecFile := filepath.Join(work, "vectors_"+tag+".json")
	vd, _ := json.Marshal(vecs)
	os.WriteFile(vecFile, vd, 0o644)

	var outb bytes.Buffer
	var runErr error
	if st, err := os.Stat(pkgDir); err != nil || !st.IsDir() {
		// the package exists only in the overlay: go test cannot chdir into it, so build
		// the test binary and run it from the work directory
		bin := filepath.Join(work, "replay_"+tag+".test")
		cmd := exec.Command("go", "test", "-c", "-o", bin, "-vet=off", "-overlay", ovFile, "./"+rel)
		cmd.Dir = repoDir
		cmd.Env = goEnv()
		cmd.Stdout = &outb
		cmd.Stderr = &outb
		if runErr = cmd.Run(); runErr == nil {
			run := exec.Command(bin, "-test.v", "-test.run", "^TestZZReplay$", "-test.timeout", "20m")
			run.Dir = work
			run.Env = append(goEnv(), "ZZRT_VECTORS="+vecFile)
			run.Stdout = &outb
			run.Stderr = &outb
			runErr = run.Run()
		}
	} else {
		cmd := exec.Command("go", "test", "-v", "-vet=off", "-count=1", "-overlay", ovFile, "-run", "^TestZZReplay$", "-timeout", "20m", "./"+rel)
		cmd.Dir = repoDir
		cmd.Env = append(goEnv(), "ZZRT_VECTORS="+vecFile)
		cmd.Stdout = &outb
		cmd.Stderr = &outb
		runErr = cmd.Run()
	}
	var res []replayResult
	sc := bufio.NewScanner(&outb)
	sc.Buffer(make([]byte, 1<<20), 1<<26)
	var tail []string
	for sc.Scan() {
		line := sc.Text()
		if i := strings.Index(line, "ZZRT-RESULT "); i >= 0 {
			var r replayResult
			if err := json.Unmarshal([]byte(line[i+len("ZZRT-RESULT "):]), &r); err == nil {
				res = append(res, r)
			}
			continue
		}
		tail = append(tail, line)
		if len(tail) > 40 {
			tail = tail[1:]
		}
	}
	if len(res) == 0 && runErr != nil {
		return nil, fmt.Errorf("native replay build/run failed for %s: %v\n%s", pkgPath, runErr, strings.Join(tail, "\n"))
	}
	return res, nil
}

func packageName(dir string, cs *CheckSpec, rel string) (string, error) {
	ents, _ := os.ReadDir(dir)
	var files []string
	for _, e := range ents {
		if strings.HasSuffix(e.Name(), ".go") && !strings.HasSuffix(e.Name(), "_test.go") {
			files = append(files, filepath.Join(dir, e.Name()))
		}
	}
	for virt, real := range cs.Files {
		if filepath.Dir(virt) == rel || (rel == "" && filepath.Dir(virt) == ".") {
			files = append(files, absVerif(real))
		}
	}
	for _, f := range files {
		data, err := os.ReadFile(f)
		if err != nil {
			continue
		}
		for _, line := range strings.Split(string(data), "\n") {
			line = strings.TrimSpace(line)
			if strings.HasPrefix(line, "package ") {
				return strings.Fields(line)[1], nil
			}
		}
	}
	return "", fmt.Errorf("cannot determine package name in %s", dir)
}

// cmdReplay replays a stored violation file natively and prints the outcome.
func cmdReplay(args []string) int {
	fs := flag.NewFlagSet("replay", flag.ExitOnError)
	specPath := fs.String("spec", "", "check spec JSON")
	file := fs.String("file", "", "replay file written by a check")
	fs.Parse(args)
	cs := loadSpec(*specPath)
	data, err := os.ReadFile(*file)
	if err != nil {
		fatal(2, "%v", err)
	}
	var v Violation
	if err := json.Unmarshal(data, &v); err != nil {
		fatal(2, "%v", err)
	}
	specs := map[string]*HarnessSpec{}
	for _, h := range cs.Harnesses {
		specs[h.Func] = h
	}
	work := filepath.Join(verifDir, ".work", fmt.Sprintf("replay-%d", os.Getpid()))
	os.MkdirAll(work, 0o755)
	defer os.RemoveAll(work)
	if err := runGenerators(cs, work); err != nil {
		fmt.Println(err)
		return 2
	}
	res, err := nativeReplay(cs, specs, []*Violation{&v}, work)
	if err != nil {
		fmt.Println(err)
		return 2
	}
	r := res[0]
	fmt.Printf("native replay of %s/%s inputs=%v: status=%s label=%s %s\n", v.Harness, v.Label, v.Inputs, r.Status, r.Label, r.Detail)
	if r.confirms(&v) {
		fmt.Printf("VIOLATION property=%s replay=%s\n", cs.Property, *file)
		return 1
	}
	fmt.Println("not reproduced on the current tree")
	return 0
}
