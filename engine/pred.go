package main

// Tiny predicate language for known-findings entries, over names the harness passed
// to zzrt.Observe (64-bit, sign- or zero-extended by static type):
//   pred := cmp ('&&' cmp)*
//   cmp  := sum ('=='|'!='|'<'|'<='|'>'|'>=') sum
//   sum  := atom (('+'|'-') atom)*
//   atom := name | decimal | 0xhex
// Comparisons are signed 64-bit.

import (
	"fmt"
	"strconv"
	"strings"
	"unicode"
)

func parsePred(it *Interp, s string) (*Term, error) {
	c := it.ctx
	parts := strings.Split(s, "&&")
	r := c.True
	for _, p := range parts {
		t, err := parseCmp(it, strings.TrimSpace(p))
		if err != nil {
			return nil, err
		}
		r = c.And(r, t)
	}
	return r, nil
}

func parseCmp(it *Interp, s string) (*Term, error) {
	c := it.ctx
	for _, op := range []string{"==", "!=", "<=", ">=", "<", ">"} {
		if i := strings.Index(s, op); i >= 0 {
			l, err := parseSum(it, strings.TrimSpace(s[:i]))
			if err != nil {
				return nil, err
			}
			r, err := parseSum(it, strings.TrimSpace(s[i+len(op):]))
			if err != nil {
				return nil, err
			}
			switch op {
			case "==":
				return c.Eq(l, r), nil
			case "!=":
				return c.Not(c.Eq(l, r)), nil
			case "<=":
				return c.Sle(l, r), nil
			case ">=":
				return c.Sle(r, l), nil
			case "<":
				return c.Slt(l, r), nil
			case ">":
				return c.Slt(r, l), nil
			}
		}
	}
	return nil, fmt.Errorf("no comparison in %q", s)
}

func parseSum(it *Interp, s string) (*Term, error) {
	c := it.ctx
	var r *Term
	sign := byte('+')
	i := 0
	for i < len(s) {
		for i < len(s) && s[i] == ' ' {
			i++
		}
		j := i
		for j < len(s) && (unicode.IsLetter(rune(s[j])) || unicode.IsDigit(rune(s[j])) || s[j] == '_' || s[j] == '.') {
			j++
		}
		if j == i {
			return nil, fmt.Errorf("bad atom in %q", s)
		}
		tok := s[i:j]
		var a *Term
		if unicode.IsDigit(rune(tok[0])) {
			v, err := strconv.ParseInt(tok, 0, 64)
			if err != nil {
				return nil, err
			}
			a = c.BV(uint64(v), 64)
		} else {
			t, ok := it.observed[tok]
			if !ok {
				return nil, fmt.Errorf("name %q not observed", tok)
			}
			a = t
		}
		switch {
		case r == nil && sign == '+':
			r = a
		case r == nil:
			r = c.Neg(a)
		case sign == '+':
			r = c.Bin(OpAdd, r, a)
		default:
			r = c.Bin(OpSub, r, a)
		}
		i = j
		for i < len(s) && s[i] == ' ' {
			i++
		}
		if i < len(s) {
			if s[i] != '+' && s[i] != '-' {
				return nil, fmt.Errorf("unexpected %q in %q", s[i], s)
			}
			sign = s[i]
			i++
		}
	}
	if r == nil {
		return nil, fmt.Errorf("empty expression")
	}
	return r, nil
}
