package main

// Harness generators: code derived from /repo's current declarations on every run.

import (
	"bytes"
	"fmt"
	"go/ast"
	"go/parser"
	"go/printer"
	"go/token"
	"os"
	"path/filepath"
	"regexp"
	"sort"
	"strings"
)

// genHookCompose emits ZZ_C14_Compose: for every field On<X>Wrapper of
// server.HookWrapper it registers three fake plugins whose wrapper for that kind is
// present/absent, a base hook present/absent, runs initPluginHooks and invokes the
// hook; the call log must show every exposed wrapper installed, nested in plugin
// order (first outermost) and fired exactly once.
func genHookCompose(repo string) ([]byte, error) {
	fset := token.NewFileSet()
	dir := filepath.Join(repo, "server")
	ents, err := os.ReadDir(dir)
	if err != nil {
		return nil, err
	}
	typeDecls := map[string]ast.Expr{}
	imports := map[string]string{} // name -> path
	for _, e := range ents {
		if !strings.HasSuffix(e.Name(), ".go") || strings.HasSuffix(e.Name(), "_test.go") || strings.HasPrefix(e.Name(), "zz_") {
			continue
		}
		f, err := parser.ParseFile(fset, filepath.Join(dir, e.Name()), nil, 0)
		if err != nil {
			return nil, err
		}
		for _, imp := range f.Imports {
			p := strings.Trim(imp.Path.Value, "\"")
			name := filepath.Base(p)
			if imp.Name != nil {
				name = imp.Name.Name
			}
			if _, ok := imports[name]; !ok {
				imports[name] = p
			}
		}
		for _, d := range f.Decls {
			gd, ok := d.(*ast.GenDecl)
			if !ok || gd.Tok != token.TYPE {
				continue
			}
			for _, s := range gd.Specs {
				ts := s.(*ast.TypeSpec)
				typeDecls[ts.Name.Name] = ts.Type
			}
		}
	}
	hw, ok := typeDecls["HookWrapper"].(*ast.StructType)
	if !ok {
		return nil, fmt.Errorf("server.HookWrapper struct not found")
	}
	hooksFields := map[string]bool{}
	if hs, ok := typeDecls["Hooks"].(*ast.StructType); ok {
		for _, f := range hs.Fields.List {
			if len(f.Names) == 0 {
				if id, ok := f.Type.(*ast.Ident); ok {
					hooksFields[id.Name] = true
				}
			}
			for _, n := range f.Names {
				hooksFields[n.Name] = true
			}
		}
	}
	src := func(e ast.Expr) string {
		var b bytes.Buffer
		printer.Fprint(&b, fset, e)
		return b.String()
	}
	type kind struct {
		field, wrapperT, hookT string
		params, results        []string
	}
	var kinds []kind
	for _, f := range hw.Fields.List {
		wt := src(f.Type)
		names := []string{wt}
		if len(f.Names) > 0 {
			names = nil
			for _, n := range f.Names {
				names = append(names, n.Name)
			}
		}
		for _, fieldName := range names {
			k := kind{field: fieldName, wrapperT: wt}
			wft, ok := typeDecls[wt].(*ast.FuncType)
			if !ok || wft.Params == nil || len(wft.Params.List) != 1 {
				return nil, fmt.Errorf("wrapper type %s is not func(H) H", wt)
			}
			k.hookT = src(wft.Params.List[0].Type)
			hft, ok := typeDecls[k.hookT].(*ast.FuncType)
			if !ok {
				return nil, fmt.Errorf("hook type %s is not a func type", k.hookT)
			}
			for _, p := range hft.Params.List {
				n := len(p.Names)
				if n == 0 {
					n = 1
				}
				for i := 0; i < n; i++ {
					k.params = append(k.params, src(p.Type))
				}
			}
			if hft.Results != nil {
				for _, r := range hft.Results.List {
					n := len(r.Names)
					if n == 0 {
						n = 1
					}
					for i := 0; i < n; i++ {
						k.results = append(k.results, src(r.Type))
					}
				}
			}
			kinds = append(kinds, k)
		}
	}
	sort.Slice(kinds, func(i, j int) bool { return kinds[i].field < kinds[j].field })

	var body bytes.Buffer
	used := map[string]bool{}
	qual := regexp.MustCompile(`\b([A-Za-z_][A-Za-z0-9_]*)\.`)
	note := func(t string) {
		for _, m := range qual.FindAllStringSubmatch(t, -1) {
			if _, ok := imports[m[1]]; ok {
				used[m[1]] = true
			}
		}
	}
	fmt.Fprintf(&body, "// zzC14Kinds: hook kinds found in server.HookWrapper on this run.\nvar zzC14Kinds = []string{")
	for _, k := range kinds {
		fmt.Fprintf(&body, "%q, ", k.field)
	}
	fmt.Fprintf(&body, "}\n\n")
	fmt.Fprintf(&body, "type zzC14Plugin struct {\n\tname string\n\thw   HookWrapper\n}\n\nfunc (p *zzC14Plugin) Load(Server) error       { return nil }\nfunc (p *zzC14Plugin) Unload() error           { return nil }\nfunc (p *zzC14Plugin) HookWrapper() HookWrapper { return p.hw }\nfunc (p *zzC14Plugin) Name() string            { return p.name }\n\n")
	fmt.Fprintf(&body, "func zzC14Expect(names []string, exposes []bool, base bool) []string {\n\tvar log []string\n\tfor i, n := range names {\n\t\tif exposes[i] {\n\t\t\tlog = append(log, n+\":pre\")\n\t\t}\n\t}\n\tif base {\n\t\tlog = append(log, \"base\")\n\t}\n\tfor i := len(names) - 1; i >= 0; i-- {\n\t\tif exposes[i] {\n\t\t\tlog = append(log, names[i]+\":post\")\n\t\t}\n\t}\n\treturn log\n}\n\n")
	fmt.Fprintf(&body, "func ZZ_C14_Compose() {\n\tnames := []string{\"p1\", \"p2\", \"p3\"}\n\texposes := make([]bool, 3)\n\tfor i := range exposes {\n\t\texposes[i] = zzrt.Choice(2) == 1\n\t}\n\tbase := zzrt.Choice(2) == 1\n\tany := exposes[0] || exposes[1] || exposes[2]\n\tvar log []string\n\tsrv := defaultServer()\n\tplgs := []*zzC14Plugin{{name: \"p1\"}, {name: \"p2\"}, {name: \"p3\"}}\n\tfor _, p := range plgs {\n\t\tsrv.plugins = append(srv.plugins, p)\n\t}\n\tkind := zzrt.Choice(len(zzC14Kinds))\n\tzzrt.Observe(\"kind\", kind)\n\tswitch zzC14Kinds[kind] {\n")
	for _, k := range kinds {
		for _, t := range append(append([]string{}, k.params...), k.results...) {
			note(t)
		}
		var ps, as, rs, rn []string
		for i, t := range k.params {
			ps = append(ps, fmt.Sprintf("a%d %s", i, t))
			as = append(as, fmt.Sprintf("a%d", i))
		}
		for i, t := range k.results {
			rs = append(rs, fmt.Sprintf("r%d %s", i, t))
			rn = append(rn, fmt.Sprintf("r%d", i))
		}
		sig := fmt.Sprintf("func(%s)", strings.Join(ps, ", "))
		if len(rs) > 0 {
			sig += " (" + strings.Join(rs, ", ") + ")"
		}
		call := fmt.Sprintf("inner(%s)", strings.Join(as, ", "))
		if len(rn) > 0 {
			call = strings.Join(rn, ", ") + " = " + call
		}
		hookField := strings.TrimSuffix(k.field, "Wrapper")
		fmt.Fprintf(&body, "\tcase %q:\n", k.field)
		if !hooksFields[hookField] {
			fmt.Fprintf(&body, "\t\tzzrt.Fail(\"hook-kind-has-no-field-in-Hooks:%s\")\n", k.field)
			continue
		}
		fmt.Fprintf(&body, "\t\tfor i, p := range plgs {\n\t\t\tif exposes[i] {\n\t\t\t\ttag := p.name\n\t\t\t\tp.hw.%s = func(inner %s) %s {\n\t\t\t\t\treturn %s {\n\t\t\t\t\t\tlog = append(log, tag+\":pre\")\n\t\t\t\t\t\t%s\n\t\t\t\t\t\tlog = append(log, tag+\":post\")\n\t\t\t\t\t\treturn\n\t\t\t\t\t}\n\t\t\t\t}\n\t\t\t}\n\t\t}\n", k.field, k.hookT, k.hookT, sig, call)
		fmt.Fprintf(&body, "\t\tif base {\n\t\t\tsrv.hooks.%s = %s {\n\t\t\t\tlog = append(log, \"base\")\n\t\t\t\treturn\n\t\t\t}\n\t\t}\n", hookField, sig)
		fmt.Fprintf(&body, "\t\tzzrt.Assert(srv.initPluginHooks() == nil, \"init-plugin-hooks-ok\")\n")
		var zargs []string
		for _, t := range k.params {
			zargs = append(zargs, fmt.Sprintf("*new(%s)", t))
		}
		fmt.Fprintf(&body, "\t\tif h := srv.hooks.%s; h != nil {\n\t\t\th(%s)\n\t\t} else {\n\t\t\tzzrt.Assert(!any && !base, \"exposed-wrapper-installed\")\n\t\t}\n", hookField, strings.Join(zargs, ", "))
	}
	fmt.Fprintf(&body, "\t}\n\twant := zzC14Expect(names, exposes, base)\n\tzzrt.Observe(\"calls\", len(log))\n\tzzrt.Assert(len(log) == len(want), \"every-exposed-wrapper-installed-and-fired-once\")\n\tfor i := range want {\n\t\tzzrt.Assert(i < len(log) && log[i] == want[i], \"wrappers-nest-in-plugin-order-first-outermost\")\n\t}\n\tzzrt.Cover(\"compose-done\")\n}\n")

	var out bytes.Buffer
	fmt.Fprintf(&out, "// Code generated by gosym (genHookCompose) from /repo/server on this run. DO NOT EDIT.\n\npackage server\n\nimport (\n")
	var names []string
	for n := range used {
		names = append(names, n)
	}
	sort.Strings(names)
	for _, n := range names {
		if filepath.Base(imports[n]) == n {
			fmt.Fprintf(&out, "\t%q\n", imports[n])
		} else {
			fmt.Fprintf(&out, "\t%s %q\n", n, imports[n])
		}
	}
	fmt.Fprintf(&out, "\t\"github.com/DrmagicE/gmqtt/zzrt\"\n)\n\n")
	out.Write(body.Bytes())
	return out.Bytes(), nil
}
