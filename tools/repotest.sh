#!/bin/bash
# Runs the repository's own test suite (guard off — there is no guard: /repo carries no instrumentation).
cd /repo && export PATH=/opt/veriftools/go1.26.8/bin:$PATH GOFLAGS=-mod=mod GOPROXY=off GOSUMDB=off GOTOOLCHAIN=local
go test -vet=off -count=1 -timeout 25m ./... 2>&1 | grep -v "no test files" | tail -40
