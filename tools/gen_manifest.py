#!/usr/bin/env python3
# Regenerates /verif/MANIFEST.json from tools/claims.json (one entry per claimed property)
# and /verif/properties.jsonl (every unclaimed property goes under not_applicable).
import json, os
V = os.path.dirname(os.path.dirname(os.path.abspath(__file__)))
props = [json.loads(l) for l in open(f'{V}/properties.jsonl')]
claims = json.load(open(f'{V}/tools/claims.json'))
base = "cd /repo && export PATH=/opt/veriftools/go1.26.8/bin:$PATH GOFLAGS=-mod=mod GOPROXY=off GOSUMDB=off GOTOOLCHAIN=local && go test -json -vet=off -count=1 -timeout 25m ./..."
m = {"version": 1,
 "setup_cmd": "cd /verif/engine && export PATH=/opt/veriftools/go1.26.8/bin:$PATH GOFLAGS=-mod=mod GOPROXY=off GOSUMDB=off GOTOOLCHAIN=local && go build -o /verif/bin/gosym .",
 "hooks": {"guard": "verif", "enable": "none needed: harnesses, models and the zzrt runtime are injected only through go/packages and go-test overlays (virtual files /repo/<pkg>/zz_*.go; build tag zzsym selects the symbolic twin of environment models); no file in /repo is modified for instrumentation", "baseline_off_cmd": base, "source_commits": [], "add_only": True},
 "engines": [{"name": "gosym", "path": "/verif/engine", "serves_properties": [], "kind_free_text": "symbolic executor over go/ssa of /repo (re-execution DFS, concrete heap + symbolic scalars) + SMT (z3 4.8.12; cvc5 1.0 --solve-bv-as-int for x1e9 arithmetic; z3 5.1.0 and cvc5 cross-check of assertion queries in the thorough tier) + native replay of every counterexample and of sampled witnesses via go test -overlay"}],
 "checks": [], "not_applicable": [],
 "notes": "exit 0 = held within the stated bounds; 1 = replay-confirmed violation (VIOLATION line); 2 = inconclusive (solver unknown, unwind bound hit, unsupported construct, harness does not build). Known findings: /verif/known_findings.jsonl."}
na = claims.get("_not_applicable", {})
for p in props:
    pid = p['id']
    if pid in claims:
        c = claims[pid]
        m["checks"].append({"property_id": pid, "quick_cmd": f"./check {pid} --tier quick", "thorough_cmd": f"./check {pid} --tier thorough",
            "evidence_file": f"/verif/evidence/{pid}.json", "replay_cmd_template": f"./check {pid} --replay {{path}}", "engine": "gosym",
            "level_claimed": {"category": "model_checking", "text": c["text"], "design_ref": c.get("ref", "DESIGN.md §3 " + pid)},
            "level_note": c["note"], "technique": c.get("technique", "bounded symbolic execution of the real go/ssa + SMT (z3, cvc5); counterexamples and sampled witnesses replayed natively")})
        m["engines"][0]["serves_properties"].append(pid)
    else:
        m["not_applicable"].append({"property_id": pid, "reason": na.get(pid, "check not built yet (work in progress; DESIGN.md §7)")})
json.dump(m, open(f'{V}/MANIFEST.json', 'w'), indent=1)
print("claimed:", [c["property_id"] for c in m["checks"]])
