#!/usr/bin/env python3
"""seed.py confirm <name> <worktree> <property>   -- verify a seeded change in its scratch worktree and store it under /verif/seeded/<name>/
   seed.py run <name> [check ids...]              -- apply /verif/seeded/<name>/patch.diff to /repo, run the checks, undo; prints what caught it"""
import json, os, shutil, subprocess, sys, glob, re
ENV = dict(os.environ, PATH="/opt/veriftools/go1.26.8/bin:" + os.environ["PATH"], GOFLAGS="-mod=mod", GOPROXY="off", GOSUMDB="off", GOTOOLCHAIN="local")
def sh(cmd, cwd=None, timeout=3600):
    r = subprocess.run(cmd, shell=True, cwd=cwd, env=ENV, capture_output=True, text=True, timeout=timeout)
    return r.returncode, r.stdout + r.stderr
def confirm(name, wt, prop):
    meta = json.load(open(f"{wt}/meta.json"))
    demo = meta.get("demo_test") or ""
    demos = [p for p in glob.glob(f"{wt}/**/zz_demo_test.go", recursive=True)]
    assert demos, "no demo test"
    demo = demos[0]
    pkg = "./" + os.path.relpath(os.path.dirname(demo), wt)
    rc, out = sh("git diff --stat", wt); print(out.strip())
    rc, out = sh("go build ./...", wt); assert rc == 0, out
    rc1, out1 = sh(f"go test -vet=off -count=1 -run 'Demo|demo' {pkg}", wt)
    print("demo WITH change: rc", rc1, out1.strip().splitlines()[-1][:200] if out1.strip() else "")
    assert rc1 != 0, "demo does not fail with the change"
    rc, out = sh("git apply -R patch.diff", wt); assert rc == 0, out
    rc2, out2 = sh(f"go test -vet=off -count=1 -run 'Demo|demo' {pkg}", wt)
    print("demo WITHOUT change: rc", rc2, out2.strip().splitlines()[-1][:200] if out2.strip() else "")
    rc, out = sh("git apply patch.diff", wt); assert rc == 0, out
    assert rc2 == 0, "demo does not pass without the change"
    # existing suite with the change, demo aside
    os.rename(demo, demo + ".aside")
    rc3, out3 = sh("go test -vet=off -count=1 ./... 2>&1 | grep -v 'no test files' | grep -v '^ok'", wt)
    os.rename(demo + ".aside", demo)
    bad = [l for l in out3.splitlines() if l.startswith("--- FAIL") or l.startswith("FAIL")]
    bad = [l for l in bad if "TestRedis" not in l and l.strip() not in ("FAIL", "FAIL\tgithub.com/DrmagicE/gmqtt/persistence") and not l.startswith("FAIL\tgithub.com/DrmagicE/gmqtt/persistence\t")]
    print("suite with change: unexpected failures:", bad)
    assert not bad, out3
    d = f"/verif/seeded/{name}"
    os.makedirs(d, exist_ok=True)
    shutil.copy(f"{wt}/patch.diff", d)
    shutil.copy(demo, f"{d}/zz_demo_test.go")
    meta["property"] = prop
    meta["demo_package"] = pkg
    meta["confirmed_by"] = "tools/seed.py confirm: demo fails with the change, passes without it; existing suite passes with the change (TestRedis needs docker and fails on the untouched tree)"
    json.dump(meta, open(f"{d}/meta.json", "w"), indent=1)
    print("stored", d)
def run(name, checks):
    d = f"/verif/seeded/{name}"
    meta = json.load(open(f"{d}/meta.json"))
    if not checks:
        checks = [meta["property"]]
    rc, out = sh("git status --short", "/repo"); assert out.strip() == "", "/repo not clean: " + out
    rc, out = sh(f"git apply {d}/patch.diff", "/repo"); assert rc == 0, out
    res = {}
    try:
        for c in checks:
            rc, out = sh(f"./check {c} --tier quick --no-evidence", "/verif", timeout=3000)
            labels = sorted(set(re.findall(r"label=(\S+)", out)))
            res[c] = {"exit": rc, "labels": labels}
            print(c, "exit", rc, labels[:8])
            if rc not in (0, 1):
                print(out[-1500:])
    finally:
        sh("git checkout -- .", "/repo")
    meta.setdefault("caught_by", {}).update(res)
    json.dump(meta, open(f"{d}/meta.json", "w"), indent=1)
if __name__ == "__main__":
    if sys.argv[1] == "confirm":
        confirm(sys.argv[2], sys.argv[3], sys.argv[4])
    else:
        run(sys.argv[2], sys.argv[3:])
